"""Per-property run configuration for bin/check.

parts: list of engine builds that are run for the property (each is compiled
from /repo's working tree with -tags verif). level must equal the category in
MANIFEST.json.
"""

PROPS = {}
NOT_APPLICABLE = {}
HOOK_COMMITS = ["c94b8c9", "c3c8497", "5a76809", "8c6f5e6", "6f05708", "4b3aea6", "d4d37fd", "93cafe8", "b0120f9", "11f2416", "202614f", "dc8e7fa", "fc7f3ae", "027accd"]


def prop(pid, **kw):
    PROPS[pid] = kw


prop("C20",
     level="exploration",
     exhaustive=True,
     parts=[{"engine": "glob", "checkptr": True}],
     floor={"quick": 1000, "thorough": 100000},
     rule="glob.Glob compared with the declarative definition on every (pattern, input) pair of the enumerated "
          "small-alphabet spaces (distinct by enumeration) plus random long pairs; MatchHost / VirtualHosts.Match on "
          "block lists built from those patterns with unique markers. "
          "Long repetitive names (up to 260 bytes) against patterns that need quadratic backtracking, also through config.MatchHostPattern. "
          "Non-trivial = a pair (or block list) on which the "
          "real function returned (or panicked) and the reference was evaluated; distinct by enumeration index or by "
          "hash of (pattern, input).",
     level_text="Differential monitoring of the real glob.Glob / ClientConfig.MatchHost / VirtualHosts.Match against the "
                "declarative definition: exhaustive over patterns<=5 x inputs<=6 on {a,b,*} (quick) and patterns<=7 x inputs<=9 "
                "plus a 5-letter alphabet up to length 5 (thorough), random long pairs, random block lists. Panics are caught "
                "per evaluation and are violations.",
     level_note="Trusts the 20-line reference matcher; says nothing about patterns/inputs longer than the enumerated bounds "
                "beyond the random samples.",
     technique="runtime differential monitor against an executable reference (bounded-exhaustive + random inputs), panic capture",
     assumptions=["reference matcher is the memoised declarative definition (DESIGN appendix B2)",
                  "byte-wise, case-sensitive matching as documented by the package"])

prop("C14",
     level="exploration",
     exhaustive=True,
     parts=[{"engine": "replay"}, {"engine": "chan"}],
     floor={"quick": 10000, "thorough": 100000},
     rule="Histories of Check/Mark on the real transport.SlidingWindow; after every step Check is compared with the set-based "
          "reference on the 19 edge probes and on every counter in [top-520, top+2]. Exhaustive: every delta sequence of "
          "length <=3 (quick) / <=4 (thorough) over 19 deltas straddling block and window edges, from 40 start counters, in "
          "two usage modes (Mark only when accepted; Mark always). Random walks with jump mixtures. Non-trivial = one "
          "complete history (distinct by enumeration, walks by seed). Second part (engine chan): the filter as the session "
          "uses it - all data packets of one direction of a real session (80-600, thorough up to 2500) are held back and then "
          "delivered one at a time in a generated order (ascending runs, forward jumps beyond the ring size, steps back to "
          "block boundaries and window edges, duplicates), mixed with forged packets carrying a chosen counter (same / far "
          "ahead) and bit-flipped copies; after each delivery the reader is polled: a genuine packet comes out exactly when "
          "the reference filter fed with accepted counters accepts it, nothing else ever comes out, and packets that do not "
          "authenticate leave the filter untouched.",
     level_text="Differential monitoring of the real SlidingWindow against a set+maximum reference after every step of "
                "bounded-exhaustive delta histories and long random walks (up to 10^5 steps, counters up to 2^63).",
     level_note="Trusts the 15-line reference; histories longer than 4 steps are sampled (walks), not enumerated.",
     technique="runtime differential monitor against an executable reference model (bounded-exhaustive histories + random walks)",
     assumptions=["counters stay below 2^63 as the property states", "usage protocol of readPacketLocked: Check, then Mark only on authentic packets"])

prop("C04",
     level="exploration",
     parts=[{"engine": "certs"}],
     floor={"quick": 5000, "thorough": 100000},
     rule="Certificate forests forged as bytes from construction records (1-3 roots, 0-4 intermediates, 1-6 leaves; any type "
          "in any slot, correct/foreign/zero/random parent links, signatures by the right key, another key, garbage or zero; "
          "names of every id type incl. empty and 252-byte labels; validity windows around a clock grid), parsed with the "
          "repository's ReadFrom and verified with the real Store.VerifyLeaf/VerifyParent for random trust-store subsets, "
          "presented intermediates, requested names and clock values (bounds +-1s, +-1ns). Plus every single-bit flip of the "
          "raw leaf and raw presented intermediate of verified chains, and chains produced by the issuing API. "
          "A parse that fails (truncated or garbled bytes) precedes about a third of the parses. "
          "Non-trivial = "
          "a query whose real verdict was compared with the reference; distinct by (forest, query index, reference clause) "
          "or by bit position.",
     level_text="Differential monitoring of certs.Store.VerifyLeaf / certs.VerifyParent against a reference verifier evaluated "
                "on the forge's construction records (iff: both wrongly-accepted and wrongly-rejected verdicts are violations); "
                "exhaustive over bit positions of sampled verified chains.",
     level_note="Trusts crypto/ed25519 and the harness forge/reference; signature validity ground truth is by construction "
                "(which key signed), key-index equality standing for key equality.",
     technique="runtime differential monitor against a reference verifier over forged certificate forests; exhaustive single-bit mutation of verified chains",
     assumptions=["independent 32-byte key seeds do not collide", "expiry bound exclusive, issue bound inclusive, as the property's rationale states"])

prop("C13",
     level="exploration",
     exhaustive=True,
     parts=[{"engine": "cyclist"}, {"engine": "cyclist", "tags": ["appengine"]}],
     floor={"quick": 5000, "thorough": 100000},
     rule="Programs over the public Cyclist API (Initialize/InitializeEmpty, Absorb, Encrypt, Decrypt, Squeeze, SqueezeKey, "
          "Ratchet) run on the real object and on the harness reference, every output compared. Exhaustive: all programs of "
          "length <=3 over the op alphabet with operand lengths {0,1,136,137} from 4 initial states; random programs of <=40 "
          "ops with lengths across the 136-byte rate boundaries; pair runs (A encrypts, B decrypts, both continue). Both the "
          "assembly and the generic (-tags appengine) permutation builds. Non-trivial = a program whose outputs were all "
          "compared; distinct by enumeration or by (batch, index).",
     level_text="Differential monitoring of cyclist.Cyclist against an independent specification-level reference "
                "(Keccak-p[1600,12] anchored to crypto/sha3 with 24 rounds and to the repository's XKCP transcript on every run), "
                "on both permutation builds, with canaries around the object and output buffers.",
     level_note="Agreement is with a second implementation written from the Cyclist specification, not with the specification "
                "itself; documented preconditions (keyed-only ops in keyed mode, |key|+|id|+1 <= 136) are respected by the generator.",
     technique="runtime differential monitor against an independent reference implementation (bounded-exhaustive + random programs), canaries",
     assumptions=["crypto/sha3 and the XKCP transcript anchor the reference permutation and duplex"])

prop("C12",
     level="exploration",
     parts=[{"engine": "kravatte", "checkptr": True}],
     floor={"quick": 5000, "thorough": 100000},
     rule="cipher.AEAD from kravatte.NewSANSE and raw Kravatte.Kra/Vatte compared call by call with the harness reference: all "
          "key lengths 0..210 (1..199 must work, >=200 refused); |P| x |A| over the block-boundary grid {0,1,31,32,33,199,200,201,"
          "399,400,401,599,600,601,1000,4096} (+64507/65535 in thorough); multi-message sessions with tampered messages in "
          "the middle; every single-bit flip of ct||tag and AD for |P|,|A| in a small grid (exhaustive over bit positions) and "
          "sampled positions for long messages; every key byte flipped (all key lengths <=64 quick / <=199 thorough); six "
          "aliasing patterns with canaries; raw Kra/Vatte with split inputs/outputs and bit-length final pieces. Every fourth refused Open is made behind data the caller already holds in dst (with room to append in place); that data must be unchanged afterwards. Non-trivial "
          "= a call (or bit position / key byte) whose real outcome was compared; distinct by grid cell, bit index or (batch, index).",
     level_text="Differential monitoring of Kravatte-SANSE against an independent specification-level reference (anchored on every "
                "run to crypto/sha3 and to the repository's three XKCP transcripts), plus exhaustive single-bit tamper rejection "
                "over sampled messages, key-byte sensitivity and aliasing monitors with canaries.",
     level_note="Agreement is with a second implementation written from the Farfalle/Kravatte/Deck-SANSE papers; 'influences the "
                "output' is observed as inequality only; key length 0 is outside the property's range.",
     technique="runtime differential monitor against an independent reference implementation; exhaustive single-bit fault injection on sealed messages; canaries",
     assumptions=["XKCP transcripts in kravatte/testdata anchor the reference"])

prop("C18",
     level="exploration",
     parts=[{"engine": "enc", "checkptr": True}],
     floor={"quick": 5000, "thorough": 100000},
     rule="17 codecs (common strings; certs Name/IDChunk/Certificate binary+PEM; authgrants Intent, AgMessage of every kind incl. "
          "unknown, proxy response, proxy tube id; tubes frame and initiate frame; codex exec request through GetCmd; userauth "
          "request framing; port-forward request; DH/signing/KEM public-key text). Three monitors per codec: generated values "
          "with every field at boundary lengths and all enum values (decode(encode(v)) == v and nothing left over); mutated "
          "valid encodings kept when the decoder accepts (decode(encode(decode(b))) == decode(b)); unrepresentable values "
          "(encoder must refuse, else output||sentinel must decode to the value and leave the sentinel). "
          "PEM bundles of one to four certificates compared with the same certificates decoded one by one. "
          "Non-trivial = a value "
          "that was encoded and decoded, or a byte string the decoder accepted; distinct by (codec, batch, index) or by bytes.",
     level_text="Round-trip, decode-encode-decode stability and refusal-of-unrepresentable monitors over the real encoders/decoders "
                "(unexported ones through verif-tagged accessors), field-by-field comparison (times by Unix seconds).",
     level_note="userauth.GetInitMsg itself needs a live tube and is driven by the C11 engine; here its framing is mirrored. "
                "Certificate.Fingerprint (a digest of the raw bytes) is not part of the compared value. Timestamps before 1970 "
                "and IPv6 zones are outside the generated domain.",
     technique="runtime round-trip / re-encoding-stability monitors over generated values and accepted mutated byte strings",
     assumptions=["values compared field by field; nil and empty slices identified"])

prop("C02",
     level="fault_enumeration",
     exhaustive=True,
     parts=[{"engine": "hsk"}],
     floor={"quick": 5000, "thorough": 50000},
     child_timeout={"quick": 900, "thorough": 3000},
     rule="Real transport.Server/Client over the simulated network in synctest bubbles; a MITM changes exactly one handshake "
          "datagram of a flow: every byte offset of each of the 5 discoverable and 2 hidden messages XORed with a non-zero mask "
          "(1 seed-chosen mask per offset in quick; the 8 single-bit masks, 0xFF and 2 random masks in thorough), every "
          "truncation length 0..len-1, replacement by the corresponding datagram of an earlier handshake, and swapping the "
          "datagrams of two concurrently running handshakes. Oracle: the receiver must not complete (client Handshake() errors; "
          "no established server session / accepted handle for the flow; only the sender of the final ClientAuth may complete). "
          "Every batch starts and ends with an honest handshake that must complete with equal session ids and keys, distinct "
          "directional keys and a data message each way; all session keys of the run must be pairwise distinct. "
          "Further families: bit flips at a stride over whole messages, truncation repeated thousands of times per message (the receive buffer keeps the tail of earlier datagrams), and servers whose handshake timer fires at once - in a bubble and, every third repetition, on the real clock, where the timer can beat a message that is being processed; whatever then completes on both sides must carry the same identifier and keys. "
          "Single fields (the session identifier, windows anywhere in the message) copied from the corresponding message of a handshake whose session is still live. "
          "Non-trivial = a "
          "tampered datagram that was actually delivered and whose outcome was observed; distinct by (mode, message, kind, offset, mask, length).",
     level_text="Exhaustive fault enumeration over byte positions and truncation lengths of every handshake datagram as actually "
                "produced (masks sampled in quick, widened in thorough), plus replacement/swap splices; outcome observed "
                "black-box (Handshake error, Accept) and white-box (session table, keys).",
     level_note="Message sizes are those of the harness certificate chain; datagram extension is recorded but not judged (the "
                "statement lists alteration, truncation and replacement). Virtual time (testing/synctest).",
     technique="in-flight fault injection on a simulated network (exhaustive byte/truncation enumeration) with online outcome monitors and offline key-uniqueness check",
     assumptions=["go1.26 testing/synctest virtual time", "ML-KEM implicit rejection is observed only through the handshake outcome"])

prop("C01",
     level="exploration",
     parts=[{"engine": "hsk"}],
     floor={"quick": 200, "thorough": 300},
     child_timeout={"quick": 900, "thorough": 3000},
     rule="Grid {discoverable, hidden} x {client verifies server, server verifies client} x verification policy (CA store with/"
          "without expected name, authorized keys, both, InsecureSkipVerify, nil config, store + vetoing callback) x 14 "
          "counterpart classes (honest chain, honest self-signed, impostor holding a valid chain / an authorized self-signed "
          "certificate but another key, other name, expired, not yet valid, wrong type in the leaf slot, leaf signed directly by "
          "the root, unrelated or missing intermediate, untrusted root, garbage signature, garbage bytes) x seeds (names, clock "
          "offsets, validity windows). Counterparts are the real endpoint code with inconsistent configuration. Oracle: success "
          "(client Handshake()==nil; server Accept offers the flow in discoverable mode / ReadMsg delivers data in both modes, "
          "also after forged and replayed transport packets are injected for the session) implies legitimacy = policy(cert) AND "
          "holds-key, known by construction. "
          "Every class is presented twice in a row to verifiers that share one trust store; the veto callback is combined with the store, skip-verification and authorized-keys policies; key sets have a history; peers may present low-order keys or play the all-zero secret. "
          "Non-trivial = a grid cell whose handshake ran to an outcome; distinct by "
          "(mode, direction, policy, class).",
     level_text="Scenario-grid exploration with ground truth by construction; every cell runs the real handshake code of both "
                "parties over the simulated network in virtual time. MAC/tag garbage and cross-session transplants of every "
                "handshake field are enumerated byte-by-byte by the C02 check on the same engine.",
     level_note="Safety direction only (success implies legitimate); legitimate-but-refused cells are counted, the fully honest "
                "cell must complete or the run is inconclusive. hopclient/hopserver configuration plumbing is not driven here.",
     technique="runtime monitoring of real handshakes against impostor/invalid counterparts on a simulated network, ground-truth oracle by construction",
     assumptions=["go1.26 testing/synctest virtual time"])

prop("C19",
     level="fault_enumeration",
     parts=[{"engine": "hsk"}],
     floor={"quick": 300, "thorough": 3000},
     rule="(a) floods of valid client hellos (5-15 distinct client keys, 100-300 source addresses, 1-4 hellos each): every hello "
          "must be answered at its source (non-vacuity) while the server's handshake/session tables and the goroutine count stay "
          "constant. (b) a held client acknowledgement is delivered from another IP, another port, with another client's cookie, "
          "with another client's KEM key, with a flipped cookie bit, and after a cookie-key rotation (2-minute ticker in virtual "
          "time); only the unmodified control may produce a ServerAuth or grow the tables. (c) a hidden-mode server is sent every "
          "discoverable message, a hidden request built for another KEM key, truncations, bit flips, junk with every message "
          "type byte, and the valid request after the freshness window (stale, from its own and a foreign address); the wire log "
          "must show no datagram from the server except for the fresh control request. "
          "Further families: cookies minted by another server instance, across one and two key rotations, and acknowledgements the harness builds itself (verif export) with a consistent transcript over a key that differs from the hello's key in its first or last bytes, in one bit, or altogether. "
          "Hidden servers are configured statically or through the certificate callbacks (no top-level keys), with handshake time-outs from none to five minutes; the stale request is delivered at six ages between 6 and 400 s. "
          "Non-trivial = a stimulus delivered to "
          "the server whose reaction (tables, emitted datagrams) was observed; distinct by (repetition, stimulus).",
     level_text="Enumeration of cookie-binding and hidden-silence stimuli against the real server on a simulated wire, observed "
                "through the wire log and white-box table sizes; hello floods by exploration.",
     level_note="A replay of a valid hidden request inside the 5 s window and a replayed valid ClientAck from its own address "
                "are fresh by the protocol's own definition and are recorded, not judged. Heap growth is recorded, not judged.",
     technique="fault injection on a simulated network with wire-log and state-table monitors (virtual time)",
     assumptions=["go1.26 testing/synctest virtual time"])

prop("C03",
     level="exploration",
     parts=[{"engine": "chan", "race": True, "escalate_stalls": True, "max_escalations": 3}],
     floor={"quick": 150, "thorough": 2000},
     child_timeout={"quick": 900, "thorough": 3000},
     rule="Seeded adversary schedules over 2-4 live sessions (both handshake modes) with self-describing messages in both "
          "directions: a faithful phase; an additive-hostile phase where every genuine packet is delivered and unauthenticated "
          "datagrams are added around it (bit flips in type/reserved/session-id/counter/body/tag, truncation to any length, "
          "extension, forged control packets incl. the close byte, unknown type bytes with a live session id, counters far ahead, "
          "session id rewritten to another live session, random bodies, from the genuine and from third addresses, exact "
          "duplicates immediate and late, reflection to the sender, cross-session delivery); a lossy phase (drop, delay/reorder, "
          "corruption in flight, late duplicates); then probes. Separate cases: Write/WriteMsg of sizes 0,1,2,Max-1,Max,Max+1,"
          "2Max-1,2Max,2Max+1,3Max+17,5Max,random on a quiet session; 2-8 concurrent writers on one end. Online oracle on every "
          "returned message (written on that session+direction, byte-identical, at most once), completeness in the faithful and "
          "additive phases, sessions not closed, probes delivered; offline on the wire log: packet counters pairwise distinct per "
          "(session, sender), no plaintext marker / SNI / certificate window in any datagram. Race detector on. "
          "Further families: recorded datagrams replayed at chosen distances behind the newest counter while packets are held back to the window edge, tampering chosen by datagram size, read buffers shorter than the message, and every shape of client handshake limit (time-out, absolute deadline, both, neither) followed by traffic long after it on a simulated socket that honours an expired read deadline; a case that stalls a bubble is re-executed in real time. "
          "Copies of the flow's own handshake datagrams arrive again from the genuine address after the session is up (at once and seconds later); messages written long after every handshake timer of the server has fired still arrive. "
          "Non-trivial = a "
          "schedule / size / writer case that ran to the end with every delivered message judged; distinct by case index.",
     level_text="Exploration of seeded datagram-level adversary schedules against the real transport with online per-message "
                "monitors and offline wire-log monitors; exhaustive over the listed size grid.",
     level_note="Receive queues stay far below MaxBufferedPackets (queue-full drops are allowed by the code and not provoked). "
                "Confidentiality is the absence of known plaintext windows, a necessary condition only. Race reports are listed "
                "as observations here (C17 judges races).",
     technique="runtime monitoring under network fault injection (simulated network, virtual time) with online message oracle, offline wire-log checks, race detector",
     assumptions=["go1.26 testing/synctest virtual time"])

prop("C15",
     level="exploration",
     parts=[{"engine": "chan", "race": True}],
     race_violation_scope=["transport/"],
     floor={"quick": 100, "thorough": 2000},
     child_timeout={"quick": 900, "thorough": 3000},
     rule="Histories of 12-36 steps on one live session, in both roles (server following a roaming client; client following a "
          "server whose address moves): genuine packet from the current address, from a new address (roaming), genuine packet "
          "first delivered through another address, forged packet with the live session id (random or next counter) from a third "
          "address, bit-flipped copy of a genuine packet from a third address delivered before the original, exact replay from a "
          "third address, old replay, replay older than the 448-packet window, forged control/close packet. Steps are separated "
          "by synctest quiescence. After every step the following endpoint writes one message; oracle: its destination on the "
          "wire (and the white-box remoteAddr) equals the source of the latest genuine, first-delivered packet. "
          "Further families: bursts across replay-window blocks, a follower whose receive queue is full, writes queued behind a held socket write, roaming under continuous sending (real time), and IPv6 addresses that keep the port of the current address and differ from it in the address alone. "
          "Roaming while a three-fragment Write is held at its first fragment (the remaining fragments go to the new address); server replies copied from a third address during the handshake (the client keeps talking to the address it dialled). "
          "Non-trivial = a "
          "history that ran to the end with every step judged; distinct by (role, step sequence).",
     level_text="Exploration of seeded roaming/abuse histories against the real transport on a simulated wire in virtual time, "
                "with a wire-log oracle whose ground truth (which delivery was genuine and fresh) is known by construction.",
     level_note="A genuine packet that the adversary delays and delivers for the first time from its own address is authentic "
                "and fresh: the property allows the move, so does the oracle.",
     technique="runtime monitoring under address-rewriting fault injection (simulated network, virtual time), wire-log oracle",
     assumptions=["go1.26 testing/synctest virtual time"])

prop("C10",
     level="fault_enumeration",
     parts=[{"engine": "junk", "checkptr": True, "escalate_stalls": True, "max_escalations": 3}],
     floor={"quick": 5000, "thorough": 100000},
     child_timeout={"quick": 900, "thorough": 3000},
     rule="Hostile datagrams delivered to the real transport.Server and Client in four server configurations (single certificate; "
          "hidden-only; several virtual hosts behind the real hopserver.VirtualHosts matcher; the same with three hidden-mode "
          "names) and in every endpoint state (established/idle, interleaved with a running honest handshake from its own and "
          "other addresses, at the client from the server's and other addresses, after Close). Datagrams: every truncation length "
          "of every valid message of all types (enumerated; quick covers a seed-chosen window of each chunk), the 256 type bytes x "
          "a 28-length grid with a live session id, single-byte and header-byte mutations, length fields set to 0/1/actual+-1/"
          "0x7fff/0x8000/0xffff, live session ids on short and long bodies with counter extremes, extensions, glued and replayed "
          "valid messages, hidden-request shapes, random strings; plus real handshakes naming hostile server names (empty, '*', "
          "252 bytes, every id type). Oracle: no goroutine panics (process death is attributed to the batch), and after every "
          "batch of <=64 datagrams the established session still carries a message each way and an honest handshake from a fresh "
          "address completes and carries a message each way. "
          "Further families: length fields inside the encrypted certificate vectors set in flight by XOR, half-open session ids, and real clients naming unknown and known hosts with every kind of identifier type byte against a server built by hopserver.NewHopServer (host blocks only) on a loopback UDP socket, followed by a control handshake that must succeed. "
          "Acknowledgements built by the harness (verif export) whose cookie, transcript and MAC are valid and whose encrypted server-name field holds name blocks no encoder produces; one-byte fields of name blocks set in flight by XOR. The probe accepts the pending backlog before its own handshake. "
          "Non-trivial = a datagram consumed by a live endpoint before a probe "
          "that was judged.",
     level_text="Fault enumeration (truncations and type x length grid of every message type) plus seeded mutation/random "
                "exploration against the real endpoints in virtual time, with liveness probes after every short batch; checkptr build.",
     level_note="The real hopserver.NewHopServer closures are mirrored around the real VirtualHosts matcher (NewHopServer itself "
                "binds a UDP socket). A handshake that is running while junk arrives from its own address may fail; only "
                "subsequent handshakes are judged, as the property states.",
     technique="hostile-input fault injection on a simulated network with crash attribution (child processes) and liveness probes; checkptr instrumentation",
     assumptions=["go1.26 testing/synctest virtual time"])

prop("C08",
     level="exploration",
     exhaustive=True,
     parts=[{"engine": "tubes_stream", "race": True}],
     floor={"quick": 5000, "thorough": 100000},
     child_timeout={"quick": 1200, "thorough": 3400},
     rule="Two real Muxers over a simulated message connection in synctest bubbles, 1-3 reliable tubes, keyed pseudo-random streams "
          "in one or both directions (totals 0..1 MiB, write sizes 1, 2, 100, MaxFrameDataLength-1/+0/+1, 70000, 200000, random). "
          "Seeded fault schedules that heal at a known virtual time: i.i.d. loss 1-60 %, asymmetric and ack-only/data-only loss, "
          "burst loss, duplication, reordering by delay up to 500 ms, total outages of 0.1 s to 30 min (up to two), combinations. "
          "Online oracle: every Read returns exactly the next bytes of the peer's stream (foreign bytes are classified against all "
          "streams of the case); EOF only at the end of the written stream; completeness: every stream fully read within the "
          "schedule's heal time + 30 virtual minutes. Reassembly core driven directly: every arrival sequence of length <=7 (quick) "
          "/ <=8 (thorough) over {frame1..frame5, FIN} with duplicates, from 6 starting frame numbers around the 32-bit wrap, "
          "buffer/closed/ack compared with a set-based model after every step; random long arrival orders with far-out-of-window "
          "frame numbers. "
          "Half of the stream runs execute with seeded yields at the instrumented points (readers, the muxer's receiver, senders). "
          "Non-trivial = a bubble whose streams were read and checked to the end, or an enumerated arrival sequence.",
     level_text="Exploration of seeded, healing fault schedules against the real muxers in virtual time with an online "
                "prefix-of-stream monitor and a bounded-progress completeness check; exhaustive differential monitoring of the "
                "reassembly core over the bounded arrival-sequence space.",
     level_note="Completeness is bounded progress (heal + 30 virtual minutes), not an unbounded eventually; under permanent loss "
                "only the prefix property is judged. Sequence-number wrap is reached only in the core.",
     technique="runtime monitoring under message-level fault injection (virtual time) with online stream oracle; bounded-exhaustive differential monitor of the reassembly core; race detector",
     assumptions=["go1.26 testing/synctest virtual time"])

prop("C09",
     level="exploration",
     parts=[{"engine": "tubes_stream", "race": True, "max_cases_per_child": 6}],
     floor={"quick": 500, "thorough": 10000},
     child_timeout={"quick": 1200, "thorough": 3400},
     rule="Two real Muxers; per case two generations of 2-40 tube instances (65 % reliable, rest unreliable) opened concurrently from "
          "both sides, each with a unique TubeType and its own keyed stream / unique messages; every instance carries data, is "
          "closed from both ends, and the second generation reuses the ids after the reaper delay. Adversary: random cross-tube "
          "reordering, duplicated initiation frames while the tube is alive, and copies of data/FIN/REQ frames of first-generation "
          "instances released (a) right after close, before any id can be reused (must be harmless), (b) while the successor with "
          "the same id carries data, (c) as late duplicate REQs after the tube was closed. Plus id-space exhaustion (128 per side and "
          "kind, the 129th must fail with ErrOutOfTubes). Oracle: ids returned by Create* pairwise distinct among live tubes per "
          "creator and kind; every opened tube offered by the peer's Accept exactly once with the opener's id, reliability and type, "
          "and nothing else offered; every byte read on a reliable instance is the next byte of that instance's stream (foreign "
          "bytes classified: predecessor-same-id / other-tube / unknown); every unreliable message equals one written message of "
          "that instance. "
          "Further families: id exhaustion, accept backlog, single unreliable messages of 32768..131077 bytes (around the 16-bit frame length and over a network that refuses more than transport.MaxPlaintextSize, as a transport connection does: whatever is read is a written message, whole), and late data frames of a long-lived predecessor (frame numbers 1100-1800, far beyond a fresh tube's 1000-frame receive window) delivered to the successor that reused the id, whose own stream of more than that many frames must arrive unaltered. "
          "Non-trivial = a tube instance that was opened, matched with the peer's Accept and carried checked data (unique per case and instance).",
     level_text="Exploration of concurrent open/transfer/close/reopen histories with per-instance keyed data and an adversary that "
                "replays frames of closed instances, in virtual time with the race detector.",
     level_note="Unreliable messages may be lost or reordered (never judged for completeness). Frames carry no tube incarnation: "
                "what the successor of an id does with a stale frame released after the reaper window is a protocol limitation "
                "recorded as a known finding with its own signature; releases within the window must be harmless and are judged.",
     technique="runtime monitoring of per-instance keyed streams/messages under frame replay and reordering (virtual time), multiset oracle on Accept; race detector",
     assumptions=["go1.26 testing/synctest virtual time"])

prop("C11",
     level="exploration",
     parts=[{"engine": "tubes_hostile", "race": True, "max_cases_per_child": 12}],
     floor={"quick": 5000, "thorough": 100000},
     child_timeout={"quick": 1200, "thorough": 3400},
     rule="(a) Two honest Muxers carry monitored keyed streams in both directions on one tube while 60-180 extra frames per case are "
          "injected into one direction: all 64 flag combinations (plus undefined flag bits), tube ids unknown / live (a victim tube) "
          "/ just closed, dataLength in {0, actual, actual-1, actual+1, 0x7FFF, 0x8000, 65523, 65524, 65535}, ack and frame numbers "
          "in {0,1,2,3,1000,2^31,2^32-1,random}, datagrams shorter than the header and shorter than declared; REQ floods for all "
          "2x256 ids (twice) with the acceptor running and absent. Oracle: no panic (process death is attributed to the case), the "
          "monitored streams on the unrelated tube complete with correct bytes, both Stop calls return within 3 x muxerTimeout + "
          "10 virtual seconds. (b) userauth.GetInitMsg, codex.GetCmd, codex.HandleSize (through a real reliable tube), "
          "authgrants.ReadIntentRequest/ReadIntentCommunication/ReadConfOrDenial/ReadTargetInfo/ReadResponse, common.ReadString, "
          "portforwarding.readPacket are fed valid encodings, prefixes followed by end of input, boundary length fields, byte "
          "mutations, random strings; oracle: the decoder returns, or blocks only while awaiting more input and returns once the "
          "input ends, and TotalAlloc grows by at most 256 KiB + 64 x input length. "
          "Further families: a peer repeating one acknowledgement far beyond the duplicate-ack limit; every decoder's first sixteen bytes walked through the values around an enumeration's range (intents carry a real delegate certificate); set-up, data and acknowledgement frames for opened-and-closed (still registered) tubes of both kinds arriving while Muxer.Stop runs, with seeded sleeps at the instrumented points or a reaper that is slow to unregister closed tubes (real time). "
          "Non-trivial = an injected frame consumed before a "
          "judged progress/stop check, or a decoder input whose outcome was observed; distinct by construction or by input bytes.",
     level_text="Exploration with enumerated boundary grids against the real muxers (virtual time, race detector) and the real "
                "application decoders, with liveness/progress/termination and allocation monitors.",
     level_note="Hostile frames may legitimately kill the tube they name; only other tubes are judged. Allocation is measured "
                "process-wide (TotalAlloc) around the call, so the bound carries slack for the carrier tube.",
     technique="hostile-frame and hostile-input fault injection with crash attribution, progress/termination monitors and allocation accounting; race detector",
     assumptions=["go1.26 testing/synctest virtual time"])

prop("C16",
     level="exploration",
     parts=[{"engine": "tubes_shutdown", "race": True, "max_cases_per_child": 10, "escalate_stalls": True}],
     floor={"quick": 150, "thorough": 3000},
     child_timeout={"quick": 1500, "thorough": 3400},
     rule="Random concurrent programs: two real Muxers (Config.Timeout 30 virtual s), 1-3 tubes (70 % reliable), one goroutine per tube "
          "end running 2-9 operations from {Write (0..120000 bytes of a keyed stream), Read (with or without deadline), Close, "
          "WaitForClose, SetDeadline(past/+d/zero), sleep}, some ends never closing, Close during the initiation handshake, each "
          "muxer's Stop issued at a programmed time (0..3 s) racing the tube programs, optionally twice concurrently; network: "
          "healthy, 10 %/50 % loss, FIN-only loss, ACK-only loss, dead from a programmed instant (0..600 ms). Seeded schedule "
          "perturbation at 47 verif-tagged Yield/Pause points (Gosched, virtual sleeps where no lock is held). Calls are recorded at "
          "the client boundary (call before, return after). Oracle: every call returns within Config.Timeout + 3 x muxerTimeout + "
          "10 s (virtual) after the later Stop was issued; no panic; after both Stops returned no goroutine of the bubble is left "
          "inside the tubes package (stack scan after 8 virtual s, and the bubble's own leak/deadlock detection); Write fails after "
          "the local Close returned; bytes read are always the peer's stream; after WaitForClose returned Read gives buffered data "
          "then io.EOF only. A bubble stall is re-executed in real-time mode and judged by the two-dump rule. "
          "Further families: a network that is dead from the first datagram, transport writes that fail while reads go on, tubes requested around the Stop instant, a duplicate-ack storm followed by close (with the muxers' idle time-out near and far), and second copies of set-up frames arriving in trains across the few milliseconds a Stop takes. "
          "A closing goroutine held up for 5-80 ms at the instrumented point inside sender.Close after request/response traffic has brought the retransmission period down to milliseconds (real time); close during initiation after a few scheduler turns. "
          "Directed close histories with the muxers' idle time-out an hour away (only the tube's own timers can finish the close; only the end those timers govern is judged): FINs that cross followed by total loss towards one end, a passive close whose FIN is never acknowledged, an unreliable tube closed before its initiation completed while a reader waits, the acceptor's response and FIN arriving back to back. "
          "Non-trivial = an "
          "execution with a distinct interleaving signature (hash of the observed order of hook points).",
     level_text="Exploration of programs x schedules x loss patterns with the race detector, virtual-time bounded-termination "
                "monitors, goroutine-leak scan and post-close API contract checks.",
     level_note="Termination is bounded progress in virtual time; the read-side contract is judged once closure has completed "
                "(WaitForClose returned), before that only stream-correctness of returned bytes. Interleavings are widened, not enumerated.",
     technique="runtime monitoring of concurrent shutdown programs with hook-based schedule perturbation, virtual-time termination bounds, goroutine-leak scan; race detector",
     assumptions=["go1.26 testing/synctest virtual time"])

prop("C17",
     level="exploration",
     parts=[{"engine": "conc", "race": True, "max_cases_per_child": 12}],
     race_violation_scope=True,
     floor={"quick": 500, "thorough": 10000},
     child_timeout={"quick": 1500, "thorough": 3400},
     rule="(a) common.DeadlineChan histories in real time: capacity 0-3, 2-6 goroutines, 5-40 operations from {Send(unique value), "
          "Recv, Close, Cancel, SetDeadline(past/+1..20 ms/zero)}, seeded perturbation at the verif Yield points inside Recv/Send/"
          "Close/Cancel/SetDeadline; every call is recorded at the client boundary with logical call/return stamps; calls still "
          "blocked after the harness's final Close are hangs (two-dump rule); each complete history is checked for linearizability "
          "with porcupine against a sequential (items, closed) model (Send ok appends while open; Send/Recv EOF need closed, Recv EOF "
          "also empty; Recv v needs v at the head; time-outs are no-ops; first Close nil, later EOF), plus at-most-once with unique "
          "values. (b) bubbles: 2-5 goroutines on one transport.Client (Handshake, ReadMsg with a single reader, Write, WriteMsg, "
          "SetDeadline/SetReadDeadline past/+d/zero, Close at random points), the server-side Handle (reader, writer, Close) and the "
          "Server (AcceptTimeout, Close twice) against a live, a silent and a black-hole peer in both handshake modes with HSTimeout "
          "set: every call returns once both sides are closed, read errors are only EOF / deadline / overflow, all Close callers get "
          "the same result. (c) silent peer: three concurrent Handshake callers must all get the same error wrapping "
          "os.ErrDeadlineExceeded within 3 x HSTimeout + 20 virtual s, in both modes; data queued before Close is returned before EOF "
          "(Client and Handle). Race detector: a report whose racing access is in transport/ or common/ is a violation. "
          "Socket write errors (transient or lasting) on the server handle's or the client's socket, then further Write/WriteMsg/Close (real time); the server's socket closed by its owner before or while Server.Close runs. "
          "Non-trivial = "
          "a queue history with at least one concurrent pair of operations, or a transport program, distinct by interleaving signature.",
     level_text="Exploration of small concurrent programs with hook-based schedule perturbation; linearizability checking of "
                "recorded queue histories (porcupine); termination, error-kind and idempotence monitors; race detector scoped to "
                "transport/ and common/.",
     level_note="Queue capacity is not modelled (an unbounded model only accepts more). SetWriteDeadline is documented as a no-op "
                "and not judged. Programs that share one connection between several readers are not generated in bubbles.",
     technique="race detector + linearizability checking of recorded histories (porcupine) + termination monitors under schedule perturbation",
     assumptions=["porcupine v1.3.0", "go1.26 testing/synctest virtual time for the transport programs"])

prop("C05",
     level="exploration",
     parts=[{"engine": "login"}],
     floor={"quick": 2000, "thorough": 100000},
     child_timeout={"quick": 600, "thorough": 7200},
     rule="(a) HopServer.AuthorizeKey(user, key) on the real server object over an error-injecting fs.FS: authorized_keys files "
          "generated from a grammar (valid entries for the key, for other keys, padded with white space; blank lines; comments; "
          "garbage; truncated base64; wrong prefixes; 31/33-byte keys; trailing comment / leading option; url-safe, unpadded and "
          "hex encodings; 70 kB lines; NUL bytes; two keys on a line; LF/CRLF; no final newline; short reads), wrapped into "
          "file-level conditions (missing, empty, a directory, Open fails, Read fails after k bytes), the key well formed in "
          "another user's file, unknown / empty / path-like user names. Oracle: a reference reader written from the statement "
          "(per line: trim, exact prefix, standard base64 of exactly 32 bytes equal to the key); accepted implies listed. "
          "(b) End to end in real time: the real HopServer on a real transport.Server over the simulated network, the harness a "
          "raw client (transport handshake with the key, user-auth tube); histories of file rewrites, AddAuthGrant calls and "
          "login attempts by 3 keys as known, unknown and empty users, authgrants on/off, transport gate shared with the "
          "server's key set or open; a ledger of live grants; confirmed implies listed now or a live grant for exactly (user, "
          "key), which is then consumed. Refusals of allowed logins are counted, not judged (failing closed). "
          "Keys that hold several grants for one user, some run out and some live; simultaneous AuthorizeKey calls for one user's file on a file system that is slow to open, with listed and unlisted keys (each caller gets the verdict for its own key). "
          "Non-trivial = a "
          "decision on a distinct (file class, line kinds, outcome).",
     level_text="Exploration by generated files, I/O faults and login histories against a reference reader and a grant ledger, "
                "observing the real AuthorizeKey results and the confirmation byte a client sees.",
     level_note="The passwd lookup, the file system and the clock are replaced at the boundaries the repository provides "
                "(pkg/thunks, the server's fs.FS). Transport-level key pinning is C01's subject; here it is either the "
                "server's own key set or open.",
     technique="runtime monitoring of the real server (function boundary and client-visible bytes) against a reference reader and ledger",
     assumptions=["C01 (the key presented is the key proven)", "thunks.LookupUser maps exactly the three known users"])

prop("C07",
     level="exploration",
     parts=[{"engine": "login"}, {"engine": "login", "race": True, "max_cases_per_child": 40}],
     floor={"quick": 400, "thorough": 12000},
     child_timeout={"quick": 600, "thorough": 7200},
     race_violation_scope=["hopserver/target.go", "authgrants/", "authkeys/"],
     rule="The real HopServer over a real transport.Server on the simulated network, real time, thunks.TimeNow a settable clock, "
          "thunks.StartCmd a recorder that really starts the (harmless) command, login(1) a recording stand-in found through "
          "PATH, probes the server may dial (TCP and unix) or must listen on (unix). Grants of every type (shell, command with "
          "texts differing by a space, case, a trailing comment or newline; local / remote forward), with start/expiry before, "
          "at and after the clock, for two users and two delegate keys, stored through AddAuthGrant or over the wire by a "
          "key-admitted principal session. The delegate logs in and sends a sequence of raw requests: exec with the same / "
          "another command, repeated, with and without pty, a shell, two identical requests at once, local and remote forward "
          "control tubes and data tubes, an intent for itself on an authgrant tube, window-size and unknown tubes, the clock "
          "advanced in between; then it logs in again and another key tries. Oracle: every action that started (confirmation "
          "byte, recorded process start, server dialled / listened, grant stored) must be assignable its own grant for that "
          "user and key of the right type and identical command text that is effective and unexpired at that clock value "
          "(bipartite matching, liberal at both time boundaries); nothing authorizes issuing grants; after the login the "
          "server's grant map holds nothing for (user, key); the same key cannot log in again, another key never. 14 directed "
          "histories plus seeded ones. The race build runs the same histories under the race detector (scope: reports with a "
          "frame in hopserver/target.go, authgrants/ or authkeys/ - the grant bookkeeping; other reports are listed as observations). "
          "Directed histories: live grants stored behind one that has run out (every command asked for twice), windows with sub-second bounds, two forwards (and a command) asked for at the same moment, grants for the 26th century. "
          "Non-trivial = a history played to the end with the oracle evaluated.",
     level_text="Exploration by directed and generated grant/request histories against a reference ledger with a matching "
                "oracle, observing process starts, dials, listeners and stored grants at the host boundary.",
     level_note="Sessions admitted by a listed key are not limited by grants and serve as principals and controls. Whether a "
                "shell grant covers a command run under a pty is not settled by the statement: the oracle accepts it.",
     technique="runtime monitoring of the real server at its host boundary (process start, dial, listen, stored grants) + race detector",
     assumptions=["C05 (admission)", "the recorder and the stand-in login observe every process the server starts"])

prop("C06",
     level="exploration",
     exhaustive=True,
     parts=[{"engine": "principal"}],
     floor={"quick": 300, "thorough": 5000},
     rule="The real authgrants.StartPrincipalInstance between a harness delegate (net.Pipe) and targets: the real "
          "StartTargetInstance with scripted checkIntent/addAuthGrant (confirm, deny, add-grant fails), a failing connection set-up, "
          "and raw scripted targets (confirm, deny, close after reading, garbage reply). The set-up callback invokes the "
          "verification callback as the real handshake does. All request sequences of length <=2 (quick) / <=3 (thorough) over "
          "{approve, deny} x {confirm, deny, add-grant fails, set-up fails} x {connected target, other target}, plus random "
          "sequences up to length 8 with random field values (all grant types incl. unknown, user names 0-200 bytes, commands "
          "0-100 bytes). Every request carries a unique user name / command. Events (request, approval call/return, set-up, bytes "
          "written to the target decoded as IntentCommunication, target decision, each answer read by the delegate incl. extra "
          "ones) are logged with a global sequence number; offline predicate per request: exactly one answer; a forwarded intent "
          "is preceded by an accepting approval of the same request and equals the requested and the approved intent field by "
          "field; a confirmation needs the target's confirmation with the grant stored. "
          "The same foreign target asked for again after it was refused; targets that deny without giving a reason; a connection attempt that fails once; predicate added: an intent is forwarded only over a connection to the target it names. "
          "Non-trivial = a request sequence run to "
          "the end with the predicate evaluated; distinct by enumeration or sequence.",
     level_text="Exhaustive over short decision sequences, exploration over random ones, with an offline trace predicate over the "
                "recorded event log of the real principal and target code.",
     level_note="A nil approval callback means 'no approval configured' (the code then accepts everything and a unit test pins "
                "that); such runs are outside the statement. A second, full-stack family (real time, loopback UDP, a scratch "
                "directory) drives the real hopclient.HopClient as principal - its approval wrapper with and without an "
                "interactive session's ExecTube, its client configuration loaded from a file (also with InsecureSkipVerify), the "
                "real transport handshake with the target through the unreliable proxy tube, in which the first request's "
                "callback runs - against the real hopserver.HopServer as target, with the same oracle plus 'nothing is stored on "
                "the target that the callback did not accept'.",
     technique="runtime trace monitoring (event log + offline predicate) of the real principal/target instances over in-memory pipes",
     assumptions=["set-up callback invokes the verification callback, as hopclient's setupTargetClient does"])
