"""Per-property run configuration for bin/check.

parts: list of engine builds that are run for the property (each is compiled
from /repo's working tree with -tags verif). level must equal the category in
MANIFEST.json.
"""

PROPS = {}
NOT_APPLICABLE = {}
HOOK_COMMITS = []


def prop(pid, **kw):
    PROPS[pid] = kw


prop("C20",
     level="exploration",
     exhaustive=True,
     parts=[{"engine": "glob", "checkptr": True}],
     floor={"quick": 1000, "thorough": 100000},
     rule="glob.Glob compared with the declarative definition on every (pattern, input) pair of the enumerated "
          "small-alphabet spaces (distinct by enumeration) plus random long pairs; MatchHost / VirtualHosts.Match on "
          "block lists built from those patterns with unique markers. Non-trivial = a pair (or block list) on which the "
          "real function returned (or panicked) and the reference was evaluated; distinct by enumeration index or by "
          "hash of (pattern, input).",
     level_text="Differential monitoring of the real glob.Glob / ClientConfig.MatchHost / VirtualHosts.Match against the "
                "declarative definition: exhaustive over patterns<=5 x inputs<=6 on {a,b,*} (quick) and patterns<=7 x inputs<=9 "
                "plus a 5-letter alphabet up to length 5 (thorough), random long pairs, random block lists. Panics are caught "
                "per evaluation and are violations.",
     level_note="Trusts the 20-line reference matcher; says nothing about patterns/inputs longer than the enumerated bounds "
                "beyond the random samples.",
     technique="runtime differential monitor against an executable reference (bounded-exhaustive + random inputs), panic capture",
     assumptions=["reference matcher is the memoised declarative definition (DESIGN appendix B2)",
                  "byte-wise, case-sensitive matching as documented by the package"])
