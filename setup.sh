#!/bin/bash
# Offline setup: check the toolchain, resolve the harness module from the
# module cache, warm the build cache (race + non-race std) and compile every
# engine once. Nothing is fetched.
set -e
cd "$(dirname "$0")"
export GOFLAGS=-mod=mod GOPROXY=off GOTOOLCHAIN=local
unset GOSUMDB
command -v go1.26.8 >/dev/null || { echo "go1.26.8 missing"; exit 1; }
mkdir -p .build evidence replays
cd harness
go1.26.8 build ./vh/... 
for e in engines/*/; do
  go1.26.8 test -c -tags verif -vet=off -o /dev/null "./$e" || { echo "engine $e does not build"; exit 1; }
done
go1.26.8 build -race std >/dev/null 2>&1 || true
python3 -c "import json,sys; json.load(open('../MANIFEST.json'))"
echo setup ok
