package vh

import (
	"io"

	"github.com/sirupsen/logrus"
)

// Quiet silences the repository's logrus output (it logs per packet).
func Quiet() {
	logrus.SetOutput(io.Discard)
	logrus.SetLevel(logrus.PanicLevel)
}

func init() { Quiet() }
