// Package vh is the shared case runner of the verification harness.
//
// An engine is a Go test binary whose single test calls vh.Main with a table
// of property -> generator functions. A generator enumerates a deterministic
// (seed-determined) list of cases through Runner.Case; the runner decides,
// from the shard environment, which of them this process executes, logs a
// "begin" record (fsynced) before a case runs so that a process death is
// attributable, recovers panics of the calling goroutine, and logs the
// outcome. Everything is written as JSON lines to $VERIF_OUT; the Python
// driver (/verif/bin/check) aggregates.
package vh

import (
	"crypto/sha256"
	"encoding/binary"
	"encoding/hex"
	"encoding/json"
	"fmt"
	"os"
	"runtime"
	"runtime/debug"
	"sort"
	"strconv"
	"strings"
	"sync"
	"testing"
	"time"

	"verif/harness/bub"
)

// Tier of a run.
const (
	Quick    = "quick"
	Thorough = "thorough"
)

// Runner is handed to generators.
type Runner struct {
	T        *testing.T
	Prop     string
	Tier     string
	Seed     uint64
	Shard    int
	NShards  int
	SkipTo   int // cases with index < SkipTo are not executed (crash resume)
	MaxCases int // >0: stop executing after this many cases; the driver resumes in a fresh process
	resumeAt int // first case index of this shard that was not executed because of MaxCases (-1: none)
	Only     int // >=0: execute only this case index (replay)
	OnlyName string
	Replay   json.RawMessage // replay payload (case descriptor) if any

	mu       sync.Mutex
	out      *os.File
	idx      int
	executed int
	counters map[string]int64
	nontriv  map[uint64]struct{}
	nontrivN int64 // distinct-by-construction non-trivial cases
	samples  []any
	maxSamp  int
	start    time.Time
}

// Case is the handle of one executing case.
type Case struct {
	R     *Runner
	Index int
	Name  string
	Desc  any

	mu           sync.Mutex
	violations   []Violation
	inconclusive []string
	done         bool
}

// Violation is one refutation of the property with its witness.
type Violation struct {
	Signature string `json:"signature"`
	Detail    any    `json:"detail,omitempty"`
}

type rec map[string]any

func envInt(name string, def int) int {
	v := os.Getenv(name)
	if v == "" {
		return def
	}
	n, err := strconv.Atoi(v)
	if err != nil {
		return def
	}
	return n
}

// Main runs the generator for $VERIF_PROP.
func Main(t *testing.T, gens map[string]func(*Runner)) {
	prop := os.Getenv("VERIF_PROP")
	if prop == "" {
		t.Skip("VERIF_PROP not set; engines are run by /verif/bin/check")
	}
	gen, ok := gens[prop]
	if !ok {
		t.Fatalf("engine does not serve %s", prop)
	}
	r := &Runner{
		T:        t,
		Prop:     prop,
		Tier:     os.Getenv("VERIF_TIER"),
		Shard:    envInt("VERIF_SHARD", 0),
		NShards:  envInt("VERIF_NSHARDS", 1),
		SkipTo:   envInt("VERIF_SKIPTO", 0),
		Only:     envInt("VERIF_ONLY", -1),
		MaxCases: envInt("VERIF_MAXCASES", 0),
		resumeAt: -1,
		counters: map[string]int64{},
		nontriv:  map[uint64]struct{}{},
		maxSamp:  6,
		start:    time.Now(),
	}
	if r.Tier == "" {
		r.Tier = Quick
	}
	seed, _ := strconv.ParseUint(os.Getenv("VERIF_SEED"), 10, 64)
	r.Seed = seed
	if p := os.Getenv("VERIF_REPLAY_DESC"); p != "" {
		b, err := os.ReadFile(p)
		if err == nil {
			r.Replay = b
		}
	}
	outPath := os.Getenv("VERIF_OUT")
	if outPath == "" {
		outPath = "/dev/stdout"
	}
	f, err := os.OpenFile(outPath, os.O_WRONLY|os.O_CREATE|os.O_APPEND, 0o644)
	if err != nil {
		t.Fatal(err)
	}
	r.out = f
	defer f.Close()
	if v := envInt("VERIF_STALL_S", 0); v > 0 {
		StallLimit = time.Duration(v) * time.Second
	}
	debug.SetTraceback("all")
	r.write(rec{"t": "start", "prop": prop, "tier": r.Tier, "seed": r.Seed, "shard": r.Shard, "nshards": r.NShards, "skipto": r.SkipTo, "go": runtime.Version()}, true)
	gen(r)
	r.finish()
}

func (r *Runner) write(m rec, sync bool) {
	b, err := json.Marshal(m)
	if err != nil {
		b, _ = json.Marshal(rec{"t": "harness_error", "err": err.Error()})
	}
	r.mu.Lock()
	r.out.Write(append(b, '\n'))
	if sync {
		r.out.Sync()
	}
	r.mu.Unlock()
}

func (r *Runner) finish() {
	r.mu.Lock()
	keys := make([]string, 0, len(r.nontriv))
	for k := range r.nontriv {
		keys = append(keys, strconv.FormatUint(k, 16))
	}
	sort.Strings(keys)
	cnt := map[string]int64{}
	for k, v := range r.counters {
		cnt[k] = v
	}
	samples := r.samples
	nn := r.nontrivN
	total := r.idx
	executed := r.executed
	r.mu.Unlock()
	r.write(rec{"t": "done", "cases_total": total, "cases_executed": executed, "counters": cnt,
		"nontrivial_keys": keys, "nontrivial_n": nn, "samples": samples, "resume_at": r.resumeAt,
		"wall_s": time.Since(r.start).Seconds()}, true)
}

// Thorough reports whether this is a thorough run.
func (r *Runner) Thorough() bool { return r.Tier == Thorough }

// Pick returns q in quick runs and t in thorough runs.
func (r *Runner) Pick(q, t int) int {
	if r.Thorough() {
		return t
	}
	return q
}

// Count adds n to a named counter reported in the evidence.
func (r *Runner) Count(name string, n int64) {
	r.mu.Lock()
	r.counters[name] += n
	r.mu.Unlock()
}

// Max keeps the maximum of a named gauge.
func (r *Runner) Max(name string, v int64) {
	r.mu.Lock()
	if v > r.counters[name] {
		r.counters[name] = v
	}
	r.mu.Unlock()
}

// Nontrivial records a case signature that reached the monitored decision;
// distinct signatures are counted across the whole run.
func (r *Runner) Nontrivial(key string) {
	h := sha256.Sum256([]byte(key))
	k := binary.LittleEndian.Uint64(h[:8])
	r.mu.Lock()
	r.nontriv[k] = struct{}{}
	r.mu.Unlock()
}

// NontrivialN records n non-trivial cases that are distinct by construction
// (members of an enumerated space executed exactly once in this run).
func (r *Runner) NontrivialN(n int64) {
	r.mu.Lock()
	r.nontrivN += n
	r.mu.Unlock()
}

// Sample keeps a few real cases for the evidence file.
func (r *Runner) Sample(v any) {
	r.mu.Lock()
	if len(r.samples) < r.maxSamp {
		r.samples = append(r.samples, v)
	}
	r.mu.Unlock()
}

// Mine reports whether the next case index belongs to this process, and
// advances the index. Generators that need to skip expensive preparation use
// Case directly; Mine is for generators that batch.
func (r *Runner) mine() (int, bool) {
	i := r.idx
	r.idx++
	if r.Only >= 0 {
		return i, i == r.Only
	}
	if i < r.SkipTo {
		return i, false
	}
	if i%r.NShards != r.Shard {
		return i, false
	}
	if r.MaxCases > 0 && r.executed >= r.MaxCases {
		if r.resumeAt < 0 {
			r.resumeAt = i
		}
		return i, false
	}
	return i, true
}

// Case runs fn as case `name` if it belongs to this shard. desc must be
// JSON-serialisable and sufficient to understand (and for input-driven
// engines to re-create) the case; it is logged before the case starts.
func (r *Runner) Case(name string, desc any, fn func(c *Case)) {
	i, ok := r.mine()
	if !ok {
		return
	}
	c := &Case{R: r, Index: i, Name: name, Desc: desc}
	r.write(rec{"t": "begin", "i": i, "name": name, "desc": desc}, true)
	r.mu.Lock()
	r.executed++
	r.mu.Unlock()
	t0 := time.Now()
	stopWatchdog := r.startWatchdog(i, name)
	defer stopWatchdog()
	func() {
		defer func() {
			if p := recover(); p != nil {
				stack := string(debug.Stack())
				c.panicked(p, stack)
			}
		}()
		fn(c)
	}()
	c.mu.Lock()
	c.done = true
	v := c.violations
	inc := c.inconclusive
	c.mu.Unlock()
	m := rec{"t": "end", "i": i, "name": name, "ms": time.Since(t0).Milliseconds()}
	if len(v) > 0 {
		m["violations"] = v
		m["desc"] = desc
	}
	if len(inc) > 0 {
		m["inconclusive"] = inc
	}
	r.write(m, len(v) > 0)
}

// Violate records a violation. Only the first violation of a case is kept
// unless the signature differs (an online monitor aborts at its first
// violation; see DESIGN appendix E).
func (c *Case) Violate(sig string, detail any) {
	c.mu.Lock()
	defer c.mu.Unlock()
	for _, v := range c.violations {
		if v.Signature == sig {
			return
		}
	}
	if len(c.violations) < 8 {
		c.violations = append(c.violations, Violation{Signature: sig, Detail: detail})
	}
}

// Violated reports whether the case already has a violation.
func (c *Case) Violated() bool {
	c.mu.Lock()
	defer c.mu.Unlock()
	return len(c.violations) > 0
}

// Inconclusive marks the case as neither held nor violated.
func (c *Case) Inconclusive(reason string) {
	c.mu.Lock()
	if len(c.inconclusive) < 4 {
		c.inconclusive = append(c.inconclusive, reason)
	}
	c.mu.Unlock()
}

// panicked classifies a recovered panic: a panic whose first non-runtime frame
// is in the repository is a violation, one in the harness is a harness fault.
func (c *Case) panicked(p any, stack string) {
	site, inRepo := FirstFrame(stack)
	msg := fmt.Sprint(p)
	if inRepo {
		c.Violate("panic@"+site+":"+PanicClass(msg), map[string]any{"panic": msg, "stack": trimStack(stack)})
	} else {
		c.Inconclusive("harness panic at " + site + ": " + msg + "\n" + trimStack(stack))
	}
}

func trimStack(s string) string {
	if len(s) > 6000 {
		return s[:6000] + "\n…"
	}
	return s
}

// PanicClass reduces a panic message to its class (numbers stripped).
func PanicClass(msg string) string {
	if i := strings.IndexByte(msg, '\n'); i >= 0 {
		msg = msg[:i]
	}
	var b strings.Builder
	lastDigit := false
	for _, r := range msg {
		if r >= '0' && r <= '9' {
			if !lastDigit {
				b.WriteByte('N')
			}
			lastDigit = true
			continue
		}
		lastDigit = false
		b.WriteRune(r)
	}
	s := b.String()
	if len(s) > 80 {
		s = s[:80]
	}
	return s
}

// FirstFrame returns "<pkg>/<file>:<func>" of the first frame of a stack
// (debug.Stack format or a goroutine dump block) that lies in the repository
// (/repo/), skipping runtime and standard-library frames. If a harness frame
// comes first, inRepo is false.
func FirstFrame(stack string) (site string, inRepo bool) {
	lines := strings.Split(stack, "\n")
	// skip everything up to and including the "panic(" frame if present
	start := 0
	for i, l := range lines {
		if strings.HasPrefix(l, "panic(") {
			start = i + 2
		}
	}
	for i := start; i+1 < len(lines); i++ {
		fn := lines[i]
		loc := strings.TrimSpace(lines[i+1])
		if !strings.HasPrefix(lines[i+1], "\t") {
			continue
		}
		path := loc
		if j := strings.LastIndex(path, ":"); j >= 0 {
			path = path[:j]
		}
		switch {
		case strings.Contains(path, "/repo/"):
			rel := path[strings.Index(path, "/repo/")+6:]
			f := fn
			if j := strings.LastIndex(f, "("); j > 0 {
				f = f[:j]
			}
			if j := strings.LastIndex(f, "/"); j >= 0 {
				f = f[j+1:]
			}
			if j := strings.Index(f, "."); j >= 0 {
				f = f[j+1:]
			}
			return rel + ":" + f, true
		case strings.Contains(path, "/verif/"):
			rel := path[strings.Index(path, "/verif/")+7:]
			// debug.Stack and the recover wrapper themselves are harness frames
			if strings.Contains(rel, "vh/vh.go") {
				i++
				continue
			}
			return rel, false
		}
		i++
	}
	return "unknown", false
}

// ---------------------------------------------------------------------------
// deterministic PRNG (SplitMix64), independent of math/rand versions

// Rand is a small deterministic generator.
type Rand struct {
	mu sync.Mutex
	s  uint64
}

// NewRand derives a generator from a seed and a list of labels.
func NewRand(seed uint64, labels ...any) *Rand {
	h := sha256.New()
	var b [8]byte
	binary.LittleEndian.PutUint64(b[:], seed)
	h.Write(b[:])
	for _, l := range labels {
		fmt.Fprintf(h, "|%v", l)
	}
	s := h.Sum(nil)
	return &Rand{s: binary.LittleEndian.Uint64(s[:8])}
}

// U64 returns the next value.
func (r *Rand) U64() uint64 {
	r.mu.Lock()
	r.s += 0x9E3779B97F4A7C15
	z := r.s
	r.mu.Unlock()
	z = (z ^ (z >> 30)) * 0xBF58476D1CE4E5B9
	z = (z ^ (z >> 27)) * 0x94D049BB133111EB
	return z ^ (z >> 31)
}

// Intn returns a value in [0,n).
func (r *Rand) Intn(n int) int {
	if n <= 0 {
		return 0
	}
	return int(r.U64() % uint64(n))
}

// Bool returns a fair coin.
func (r *Rand) Bool() bool { return r.U64()&1 == 1 }

// Chance returns true with probability p.
func (r *Rand) Chance(p float64) bool { return float64(r.U64()>>11)/float64(1<<53) < p }

// Bytes fills a fresh slice of n bytes.
func (r *Rand) Bytes(n int) []byte {
	b := make([]byte, n)
	r.Fill(b)
	return b
}

// Fill fills b.
func (r *Rand) Fill(b []byte) {
	for i := 0; i < len(b); {
		v := r.U64()
		for k := 0; k < 8 && i < len(b); k++ {
			b[i] = byte(v)
			v >>= 8
			i++
		}
	}
}

// Read implements io.Reader (never fails).
func (r *Rand) Read(b []byte) (int, error) { r.Fill(b); return len(b), nil }

// Pick returns one of the ints.
func (r *Rand) Pick(xs ...int) int { return xs[r.Intn(len(xs))] }

// Hex is a short helper for descriptors.
func Hex(b []byte) string { return hex.EncodeToString(b) }

// HexCap returns at most n bytes of b as hex plus the total length.
func HexCap(b []byte, n int) string {
	if len(b) <= n {
		return hex.EncodeToString(b)
	}
	return hex.EncodeToString(b[:n]) + fmt.Sprintf("…(%d bytes)", len(b))
}

// Require runs a precondition of the whole engine (reference anchors, fixture
// self-checks) in every child process. If it fails, a harness fault is logged
// (the driver then reports the run as inconclusive, never as a verdict) and
// false is returned; the generator must not go on.
func (r *Runner) Require(name string, fn func() error) bool {
	var err error
	func() {
		defer func() {
			if p := recover(); p != nil {
				err = fmt.Errorf("panic: %v\n%s", p, trimStack(string(debug.Stack())))
			}
		}()
		err = fn()
	}()
	if err != nil {
		r.write(rec{"t": "harness_fault", "name": name, "err": err.Error()}, true)
		return false
	}
	r.Count("require_ok:"+name, 1)
	return true
}

// ---------------------------------------------------------------------------
// wall-clock watchdog (keeps runs finite; its firing is never a verdict)

// StallLimit is the per-case wall-clock limit after which the child gives up
// on the case: it logs two goroutine dumps taken 3 s apart and exits so that
// the driver can continue with the remaining cases in a fresh process.
var StallLimit = 120 * time.Second

func dumpAll() string {
	buf := make([]byte, 1<<22)
	n := runtime.Stack(buf, true)
	return string(buf[:n])
}

func (r *Runner) startWatchdog(i int, name string) (stop func()) {
	done := make(chan struct{})
	go func() {
		t := time.NewTimer(StallLimit)
		defer t.Stop()
		select {
		case <-done:
			return
		case <-t.C:
		}
		d1 := dumpAll()
		time.Sleep(3 * time.Second)
		select {
		case <-done:
			return
		default:
		}
		d2 := dumpAll()
		r.write(rec{"t": "stall", "i": i, "name": name, "same": stripDump(d1) == stripDump(d2), "dump": clip(d2, 60000)}, true)
		os.Exit(3)
	}()
	return func() { close(done) }
}

func clip(s string, n int) string {
	if len(s) > n {
		return s[:n] + "\n…"
	}
	return s
}

// stripDump removes durations ("[select, 2 minutes]") so two dumps of an
// unchanged blocked set compare equal.
func stripDump(s string) string {
	var b strings.Builder
	for _, l := range strings.Split(s, "\n") {
		if strings.HasPrefix(l, "goroutine ") {
			if i := strings.Index(l, ","); i > 0 {
				l = l[:i] + "]:"
			}
		}
		b.WriteString(l)
		b.WriteByte('\n')
	}
	return b.String()
}

// Bubble runs fn as the root of a fresh synctest bubble (virtual time). A
// panic of the root goroutine is classified like any other case panic; the
// bubble's deadlock / leak outcomes are returned for the engine to judge.
func (c *Case) Bubble(fn func()) bub.Outcome {
	out := bub.Run(c.R.T, fmt.Sprintf("case%d", c.Index), fn)
	if out.Panic != "" {
		c.panicked(out.Panic, out.Stack)
	}
	return out
}

// Unique records values that must be pairwise distinct over the whole run
// (all children); the driver reports a duplicate as a violation with the
// given signature.
func (r *Runner) Unique(namespace, signature string, values ...string) {
	r.write(rec{"t": "unique", "ns": namespace, "sig": signature, "values": values}, false)
}

// Stuck implements the two-dump rule for real-time (non-bubble) cases: two
// goroutine dumps are taken `gap` apart; if the blocked sets are identical the
// process made no progress in between and calls that have not returned are
// hung. It returns whether the dumps were identical and the second dump.
func Stuck(gap time.Duration) (same bool, dump string) {
	d1 := dumpAll()
	time.Sleep(gap)
	d2 := dumpAll()
	return stripDump(d1) == stripDump(d2), clip(d2, 40000)
}

// StuckIn is Stuck restricted to the goroutines whose stack mentions one of
// the given function-name fragments (the calls under judgement and the
// goroutines they wait for): background tickers of unrelated goroutines do not
// count as progress.
func StuckIn(gap time.Duration, fragments ...string) (same bool, dump string) {
	pick := func(d string) string {
		var keep []string
		for _, blk := range strings.Split(stripDump(d), "\n\n") {
			for _, f := range fragments {
				if strings.Contains(blk, f) {
					// drop argument values and addresses: they do not change while blocked, but pc offsets are kept
					keep = append(keep, blk)
					break
				}
			}
		}
		sort.Strings(keep)
		return strings.Join(keep, "\n\n")
	}
	d1 := dumpAll()
	time.Sleep(gap)
	d2 := dumpAll()
	p1, p2 := pick(d1), pick(d2)
	return p1 != "" && p1 == p2, clip(p2, 40000)
}
