// Package msgnet is a simulated message-oriented connection pair
// (transport.MsgConn) with an adversary in the middle, used to run two real
// tubes.Muxer instances (or one Muxer against a scripted peer) without the
// transport's cryptography. Timing uses package time (virtual in bubbles).
package msgnet

import (
	"fmt"
	"hop.computer/hop/transport"
	"net"
	"os"
	"sync"
	"time"
)

// Delivery is what the adversary decides for one message.
type Delivery struct {
	Data  []byte
	Delay time.Duration
	// Dir, when set to the other direction (DirOpposite), delivers the data to
	// the end that wrote the message being decided on (an old datagram of the
	// opposite direction turning up again).
	Dir int
}

// DirOpposite marks a Delivery for the writer's own end.
const DirOpposite = -1

// Policy is called for every message written by an end (dir 0: A->B, 1: B->A)
// without any msgnet lock held. nil delivers faithfully and immediately.
type Policy func(dir int, seq int, data []byte) []Delivery

// Pair is the two connected ends.
type Pair struct {
	A, B   *End
	mu     sync.Mutex
	policy Policy
	seq    [2]int
	// counters
	Sent, Delivered [2]int
}

// End is one end of the pair.
type End struct {
	p    *Pair
	dir  int // direction of messages written by this end
	peer *End
	name string

	mu     sync.Mutex
	q      [][]byte
	closed bool
	werr   error // when set, WriteMsg fails with it while reads go on
	wmax   int   // when > 0, WriteMsg refuses longer messages as transport.Handle.WriteMsg does
	rdl    time.Time
	wake   chan struct{}
}

// NewPair creates a connected pair.
func NewPair() *Pair {
	p := &Pair{}
	p.A = &End{p: p, dir: 0, name: "A", wake: make(chan struct{})}
	p.B = &End{p: p, dir: 1, name: "B", wake: make(chan struct{})}
	p.A.peer, p.B.peer = p.B, p.A
	return p
}

// SetPolicy installs the adversary.
func (p *Pair) SetPolicy(pol Policy) { p.mu.Lock(); p.policy = pol; p.mu.Unlock() }

// Inject delivers data to the reader of direction dir (0: to B, 1: to A).
func (p *Pair) Inject(dir int, data []byte, delay time.Duration) {
	dst := p.B
	if dir == 1 {
		dst = p.A
	}
	cp := append([]byte(nil), data...)
	if delay > 0 {
		time.AfterFunc(delay, func() { dst.enqueue(cp) })
		return
	}
	dst.enqueue(cp)
}

func (e *End) signalLocked() {
	close(e.wake)
	e.wake = make(chan struct{})
}

func (e *End) enqueue(b []byte) {
	e.mu.Lock()
	if e.closed {
		e.mu.Unlock()
		return
	}
	e.q = append(e.q, b)
	e.signalLocked()
	e.mu.Unlock()
	e.p.mu.Lock()
	e.p.Delivered[1-e.dir]++
	e.p.mu.Unlock()
}

type timeoutError struct{}

func (timeoutError) Error() string   { return "msgnet: i/o timeout" }
func (timeoutError) Timeout() bool   { return true }
func (timeoutError) Temporary() bool { return true }
func (timeoutError) Unwrap() error   { return os.ErrDeadlineExceeded }

// ErrClosed wraps net.ErrClosed.
var ErrClosed = fmt.Errorf("msgnet: %w", net.ErrClosed)

// ReadMsg implements transport.MsgReader.
func (e *End) ReadMsg(b []byte) (int, error) {
	for {
		e.mu.Lock()
		if len(e.q) > 0 {
			m := e.q[0]
			if len(b) < len(m) {
				// the semantics of a hop transport connection: a message that
				// does not fit is not cut, the reader is told and the message
				// stays for a reader with a longer buffer
				e.mu.Unlock()
				return 0, transport.ErrBufOverflow
			}
			e.q = e.q[1:]
			e.mu.Unlock()
			return copy(b, m), nil
		}
		if e.closed {
			e.mu.Unlock()
			return 0, ErrClosed
		}
		dl := e.rdl
		wake := e.wake
		e.mu.Unlock()
		if dl.IsZero() {
			<-wake
			continue
		}
		d := time.Until(dl)
		if d <= 0 {
			return 0, timeoutError{}
		}
		t := time.NewTimer(d)
		select {
		case <-wake:
			t.Stop()
		case <-t.C:
		}
	}
}

// WriteMsg implements transport.MsgWriter.
func (e *End) WriteMsg(b []byte) error {
	e.mu.Lock()
	if e.closed {
		e.mu.Unlock()
		return ErrClosed
	}
	if e.werr != nil {
		err := e.werr
		e.mu.Unlock()
		return err
	}
	if e.wmax > 0 && len(b) > e.wmax {
		e.mu.Unlock()
		return transport.ErrBufOverflow
	}
	e.mu.Unlock()
	cp := append([]byte(nil), b...)
	p := e.p
	p.mu.Lock()
	seq := p.seq[e.dir]
	p.seq[e.dir]++
	p.Sent[e.dir]++
	pol := p.policy
	p.mu.Unlock()
	if pol == nil {
		e.peer.enqueue(cp)
		return nil
	}
	for _, d := range pol(e.dir, seq, cp) {
		to := e.peer
		if d.Dir == DirOpposite {
			to = e
		}
		if d.Delay > 0 {
			data := d.Data
			time.AfterFunc(d.Delay, func() { to.enqueue(data) })
		} else {
			to.enqueue(d.Data)
		}
	}
	return nil
}

// FailWrites makes every later WriteMsg of this end return err (as a UDP socket
// does after an ICMP destination-unreachable) while reads keep being served.
func (e *End) FailWrites(err error) { e.mu.Lock(); e.werr = err; e.mu.Unlock() }

// LimitWrites makes WriteMsg refuse messages longer than n bytes with
// transport.ErrBufOverflow, which is what a real transport connection does
// above transport.MaxPlaintextSize (by default this network carries any size).
func (e *End) LimitWrites(n int) { e.mu.Lock(); e.wmax = n; e.mu.Unlock() }

// Read implements net.Conn.
func (e *End) Read(b []byte) (int, error) { return e.ReadMsg(b) }

// Write implements net.Conn.
func (e *End) Write(b []byte) (int, error) { return len(b), e.WriteMsg(b) }

// Close implements net.Conn.
func (e *End) Close() error {
	e.mu.Lock()
	defer e.mu.Unlock()
	if e.closed {
		return ErrClosed
	}
	e.closed = true
	e.signalLocked()
	return nil
}

// Closed reports whether Close was called.
func (e *End) Closed() bool { e.mu.Lock(); defer e.mu.Unlock(); return e.closed }

type addr string

func (a addr) Network() string { return "msgnet" }
func (a addr) String() string  { return string(a) }

// LocalAddr implements net.Conn.
func (e *End) LocalAddr() net.Addr { return addr(e.name) }

// RemoteAddr implements net.Conn.
func (e *End) RemoteAddr() net.Addr { return addr(e.peer.name) }

// SetDeadline implements net.Conn.
func (e *End) SetDeadline(t time.Time) error { return e.SetReadDeadline(t) }

// SetReadDeadline implements net.Conn.
func (e *End) SetReadDeadline(t time.Time) error {
	e.mu.Lock()
	defer e.mu.Unlock()
	e.rdl = t
	e.signalLocked()
	return nil
}

// SetWriteDeadline implements net.Conn.
func (e *End) SetWriteDeadline(t time.Time) error { return nil }
