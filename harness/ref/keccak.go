// Package ref holds the harness's independent reference implementations
// (DESIGN appendix B9): Keccak-p[1600,n_r], Cyclist, Kravatte and Deck-SANSE,
// written from the specifications and sharing no code with the repository.
package ref

import "math/bits"

var (
	rhoOff [5][5]uint     // rotation offsets, computed from the spec rule
	roundC [24]uint64     // round constants, computed with the rc(t) LFSR
	_      = initKeccak() // run once
)

func initKeccak() bool {
	// rho offsets: (x,y) = (1,0); for t = 0..23: r[x][y] = (t+1)(t+2)/2; (x,y) = (y, 2x+3y)
	x, y := 1, 0
	for t := 0; t < 24; t++ {
		rhoOff[x][y] = uint((t+1)*(t+2)/2) % 64
		x, y = y, (2*x+3*y)%5
	}
	// iota constants: RC[ir][2^j - 1] = rc(j + 7 ir)
	rc := func(t int) uint64 {
		if t%255 == 0 {
			return 1
		}
		R := uint16(0x80) // R = 10000000 (bit 0 is the leftmost in the spec; model as 9-bit shift)
		// spec: R = 10000000; for i = 1..t mod 255: R = 0||R; R[0]^=R[8]; R[4]^=R[8]; R[5]^=R[8]; R[6]^=R[8]; R = Trunc8[R]
		// represent R[0..8] as an array
		var r [9]byte
		r[0] = 1
		_ = R
		for i := 1; i <= t%255; i++ {
			copy(r[1:], r[:8])
			r[0] = 0
			r[0] ^= r[8]
			r[4] ^= r[8]
			r[5] ^= r[8]
			r[6] ^= r[8]
			r[8] = 0
		}
		return uint64(r[0])
	}
	for ir := 0; ir < 24; ir++ {
		var c uint64
		for j := 0; j <= 6; j++ {
			c |= rc(j+7*ir) << ((1 << uint(j)) - 1)
		}
		roundC[ir] = c
	}
	return true
}

// State is the 1600-bit Keccak state as 200 bytes (lane (x,y) at byte 8(x+5y),
// little-endian).
type State [200]byte

func (s *State) lane(x, y int) uint64 {
	o := 8 * (x + 5*y)
	var v uint64
	for i := 7; i >= 0; i-- {
		v = v<<8 | uint64(s[o+i])
	}
	return v
}

func (s *State) setLane(x, y int, v uint64) {
	o := 8 * (x + 5*y)
	for i := 0; i < 8; i++ {
		s[o+i] = byte(v >> (8 * uint(i)))
	}
}

// KeccakP applies Keccak-p[1600, nr]: the last nr rounds of Keccak-f[1600].
func KeccakP(s *State, nr int) {
	var a [5][5]uint64
	for x := 0; x < 5; x++ {
		for y := 0; y < 5; y++ {
			a[x][y] = s.lane(x, y)
		}
	}
	for ir := 24 - nr; ir < 24; ir++ {
		// theta
		var c, d [5]uint64
		for x := 0; x < 5; x++ {
			c[x] = a[x][0] ^ a[x][1] ^ a[x][2] ^ a[x][3] ^ a[x][4]
		}
		for x := 0; x < 5; x++ {
			d[x] = c[(x+4)%5] ^ bits.RotateLeft64(c[(x+1)%5], 1)
		}
		for x := 0; x < 5; x++ {
			for y := 0; y < 5; y++ {
				a[x][y] ^= d[x]
			}
		}
		// rho + pi
		var b [5][5]uint64
		for x := 0; x < 5; x++ {
			for y := 0; y < 5; y++ {
				b[y][(2*x+3*y)%5] = bits.RotateLeft64(a[x][y], int(rhoOff[x][y]))
			}
		}
		// chi
		for x := 0; x < 5; x++ {
			for y := 0; y < 5; y++ {
				a[x][y] = b[x][y] ^ (^b[(x+1)%5][y] & b[(x+2)%5][y])
			}
		}
		// iota
		a[0][0] ^= roundC[ir]
	}
	for x := 0; x < 5; x++ {
		for y := 0; y < 5; y++ {
			s.setLane(x, y, a[x][y])
		}
	}
}

// SHA3_256 is the anchor for the permutation: a sponge over KeccakP(…, 24)
// that must reproduce crypto/sha3.
func SHA3_256(msg []byte) [32]byte {
	const rate = 136
	var s State
	m := append(append([]byte{}, msg...), 0x06)
	for len(m)%rate != 0 {
		m = append(m, 0)
	}
	m[len(m)-1] |= 0x80
	for off := 0; off < len(m); off += rate {
		for i := 0; i < rate; i++ {
			s[i] ^= m[off+i]
		}
		KeccakP(&s, 24)
	}
	var out [32]byte
	copy(out[:], s[:32])
	return out
}
