package ref

import "math/bits"

// Kravatte (Achouffe) = Farfalle[p_b, p_c, p_d, p_e, roll_c, roll_e] with all
// four permutations Keccak-p[1600,6], written from the Farfalle/Kravatte
// specification (algorithm 1 of the Farfalle paper and the Achouffe rolling
// functions), and Deck-SANSE with t = 256.

const kvRounds = 6

// Kravatte holds a session: the mask, the rolled mask and the accumulator.
type Kravatte struct {
	K  State // k = p_b(K || 10*)
	Kr State // roll_c^I(k)
	X  State // accumulator
}

// NewKravatte derives the mask from a key of at most 199 bytes.
func NewKravatte(key []byte) *Kravatte {
	if len(key) > 199 {
		panic("ref: key too long")
	}
	var s State
	copy(s[:], key)
	s[len(key)] = 0x01
	KeccakP(&s, kvRounds)
	return &Kravatte{K: s, Kr: s}
}

func rollC(s *State) {
	x0, x1 := s.lane(0, 4), s.lane(1, 4)
	s.setLane(0, 4, x1)
	s.setLane(1, 4, s.lane(2, 4))
	s.setLane(2, 4, s.lane(3, 4))
	s.setLane(3, 4, s.lane(4, 4))
	s.setLane(4, 4, bits.RotateLeft64(x0, 7)^x1^(x1>>3))
}

func rollE(s *State) {
	// x0..x9 = lanes (0..4,3), (0..4,4)
	get := func(i int) uint64 { return s.lane(i%5, 3+i/5) }
	x0, x1, x2 := get(0), get(1), get(2)
	var n [10]uint64
	for i := 0; i < 9; i++ {
		n[i] = get(i + 1)
	}
	n[9] = bits.RotateLeft64(x0, 7) ^ bits.RotateLeft64(x1, 18) ^ (x2 & (x1 >> 1))
	for i := 0; i < 10; i++ {
		s.setLane(i%5, 3+i/5, n[i])
	}
}

// AbsorbBits compresses one input string of nbits bits (LSB-first within
// bytes) into the accumulator and advances the mask index past the blank.
func (kv *Kravatte) AbsorbBits(data []byte, nbits int) { kv.absorbBits(data, nbits, true) }

// AbsorbBitsXKCP is AbsorbBits with the XKCP calling convention: the unused
// high bits of a partial last byte are the caller's responsibility and are
// taken as they are (the repository's xkcp-kravatte.txt transcript was
// produced with such a byte, so the anchor needs this variant).
func (kv *Kravatte) AbsorbBitsXKCP(data []byte, nbits int) { kv.absorbBits(data, nbits, false) }

func (kv *Kravatte) absorbBits(data []byte, nbits int, mask bool) {
	nbytes := nbits / 8
	m := append([]byte{}, data[:nbytes]...)
	rem := nbits % 8
	if rem != 0 {
		last := data[nbytes]
		if mask {
			last &= byte((1 << uint(rem)) - 1)
		}
		m = append(m, last|1<<uint(rem))
	} else {
		m = append(m, 0x01)
	}
	for len(m)%200 != 0 {
		m = append(m, 0)
	}
	for off := 0; off < len(m); off += 200 {
		s := kv.Kr
		rollC(&kv.Kr)
		for i := 0; i < 200; i++ {
			s[i] ^= m[off+i]
		}
		KeccakP(&s, kvRounds)
		for i := 0; i < 200; i++ {
			kv.X[i] ^= s[i]
		}
	}
	rollC(&kv.Kr) // blank index between strings
}

// Absorb compresses a byte string.
func (kv *Kravatte) Absorb(data []byte) { kv.AbsorbBits(data, 8*len(data)) }

// Expand returns bytes [off, off+n) of the output stream for the current
// accumulator; it does not change the session.
func (kv *Kravatte) Expand(off, n int) []byte {
	y := kv.X
	KeccakP(&y, kvRounds)
	var out []byte
	for len(out) < off+n {
		s := y
		rollE(&y)
		KeccakP(&s, kvRounds)
		for i := 0; i < 200; i++ {
			s[i] ^= kv.Kr[i]
		}
		out = append(out, s[:]...)
	}
	return out[off : off+n]
}

// Clone copies the session.
func (kv *Kravatte) Clone() *Kravatte { c := *kv; return &c }

// SANSE is Deck-SANSE over Kravatte with a 32-byte tag.
type SANSE struct {
	kv *Kravatte
	e  byte
}

// NewSANSE starts a session.
func NewSANSE(key []byte) *SANSE { return &SANSE{kv: NewKravatte(key)} }

// appendBits absorbs data || bits (nb bits, LSB first) || e as one string.
func (s *SANSE) appendTo(kv *Kravatte, data []byte, appendix byte, nb int) {
	m := append(append([]byte{}, data...), appendix|s.e<<uint(nb))
	kv.AbsorbBits(m, 8*len(data)+nb+1)
}

// Wrap returns ciphertext and tag.
func (s *SANSE) Wrap(ad, pt []byte) (ct, tag []byte) {
	if len(ad) > 0 || len(pt) == 0 {
		s.appendTo(s.kv, ad, 0, 1) // A || 0 || e
	}
	if len(pt) > 0 {
		h := s.kv.Clone()
		s.appendTo(h, pt, 2, 2) // P || 01 || e
		tag = h.Expand(0, 32)
		c := s.kv.Clone()
		s.appendTo(c, tag, 3, 2) // T || 11 || e
		ks := c.Expand(0, len(pt))
		ct = make([]byte, len(pt))
		for i := range pt {
			ct[i] = pt[i] ^ ks[i]
		}
		s.kv = h
	} else {
		tag = s.kv.Expand(0, 32)
		ct = []byte{}
	}
	s.e ^= 1
	return
}

// Unwrap returns the plaintext and whether the tag verified. The session
// state advances in both cases (as in the XKCP code).
func (s *SANSE) Unwrap(ad, ct, tag []byte) (pt []byte, ok bool) {
	if len(ad) > 0 || len(ct) == 0 {
		s.appendTo(s.kv, ad, 0, 1)
	}
	pt = []byte{}
	if len(ct) > 0 {
		c := s.kv.Clone()
		s.appendTo(c, tag, 3, 2)
		ks := c.Expand(0, len(ct))
		pt = make([]byte, len(ct))
		for i := range ct {
			pt[i] = ct[i] ^ ks[i]
		}
		s.appendTo(s.kv, pt, 2, 2)
	}
	t2 := s.kv.Expand(0, 32)
	s.e ^= 1
	ok = len(tag) == 32
	for i := range t2 {
		if i >= len(tag) || t2[i] != tag[i] {
			ok = false
		}
	}
	return
}
