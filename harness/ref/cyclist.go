package ref

// Cyclist per the Xoodyak/Cyclist specification (section 2, algorithms 1-3),
// instantiated with f = Keccak-p[1600,12], R_hash = R_kin = R_kout = 136 bytes,
// l_ratchet = 32 bytes.

const (
	cyRate    = 136
	cyRatchet = 32
	cyRounds  = 12
)

// Cyclist is the reference duplex object.
type Cyclist struct {
	s        State
	up       bool
	keyed    bool
	rAbsorb  int
	rSqueeze int
}

// NewCyclist corresponds to Cyclist(K, id, counter).
func NewCyclist(key, id, counter []byte) *Cyclist {
	c := &Cyclist{up: true, rAbsorb: cyRate, rSqueeze: cyRate}
	if len(key) > 0 {
		c.absorbKey(key, id, counter)
	}
	return c
}

func split(x []byte, n int) [][]byte {
	if len(x) == 0 {
		return [][]byte{nil}
	}
	var out [][]byte
	for len(x) > 0 {
		k := min(n, len(x))
		out = append(out, x[:k])
		x = x[k:]
	}
	return out
}

func (c *Cyclist) doDown(x []byte, cd byte) {
	c.up = false
	for i, b := range x {
		c.s[i] ^= b
	}
	c.s[len(x)] ^= 0x01
	if !c.keyed {
		cd &= 0x01
	}
	c.s[199] ^= cd
}

func (c *Cyclist) doUp(n int, cu byte) []byte {
	c.up = true
	if c.keyed {
		c.s[199] ^= cu
	}
	KeccakP(&c.s, cyRounds)
	return append([]byte(nil), c.s[:n]...)
}

func (c *Cyclist) absorbAny(x []byte, r int, cd byte) {
	for i, blk := range split(x, r) {
		if !c.up {
			c.doUp(0, 0)
		}
		if i == 0 {
			c.doDown(blk, cd)
		} else {
			c.doDown(blk, 0)
		}
	}
}

func (c *Cyclist) absorbKey(key, id, counter []byte) {
	if len(key)+len(id) > cyRate-1 {
		panic("ref: key||id too long")
	}
	c.keyed = true
	c.rAbsorb, c.rSqueeze = cyRate, cyRate
	kid := append(append(append([]byte{}, key...), id...), byte(len(id)))
	c.absorbAny(kid, c.rAbsorb, 0x02)
	if len(counter) > 0 {
		c.absorbAny(counter, 1, 0x00)
	}
}

func (c *Cyclist) crypt(in []byte, decrypt bool) []byte {
	out := make([]byte, 0, len(in))
	for i, blk := range split(in, cyRate) {
		cu := byte(0)
		if i == 0 {
			cu = 0x80
		}
		ks := c.doUp(len(blk), cu)
		o := make([]byte, len(blk))
		for j := range blk {
			o[j] = blk[j] ^ ks[j]
		}
		if decrypt {
			c.doDown(o, 0)
		} else {
			c.doDown(blk, 0)
		}
		out = append(out, o...)
	}
	return out
}

func (c *Cyclist) squeezeAny(l int, cu byte) []byte {
	y := c.doUp(min(l, c.rSqueeze), cu)
	for len(y) < l {
		c.doDown(nil, 0)
		y = append(y, c.doUp(min(l-len(y), c.rSqueeze), 0)...)
	}
	return y
}

// Absorb, Encrypt, Decrypt, Squeeze, SqueezeKey, Ratchet: the public interface.
func (c *Cyclist) Absorb(x []byte)          { c.absorbAny(x, c.rAbsorb, 0x03) }
func (c *Cyclist) Encrypt(p []byte) []byte  { c.mustKey(); return c.crypt(p, false) }
func (c *Cyclist) Decrypt(ct []byte) []byte { c.mustKey(); return c.crypt(ct, true) }
func (c *Cyclist) Squeeze(l int) []byte     { return c.squeezeAny(l, 0x40) }
func (c *Cyclist) SqueezeKey(l int) []byte  { c.mustKey(); return c.squeezeAny(l, 0x20) }
func (c *Cyclist) Ratchet()                 { c.mustKey(); c.absorbAny(c.squeezeAny(cyRatchet, 0x10), c.rAbsorb, 0x00) }
func (c *Cyclist) Keyed() bool              { return c.keyed }
func (c *Cyclist) StateBytes() []byte       { return append([]byte(nil), c.s[:]...) }
func (c *Cyclist) mustKey() {
	if !c.keyed {
		panic("ref: keyed-only operation in hash mode")
	}
}
