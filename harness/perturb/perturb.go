// Package perturb installs the handler behind the repository's verif-tagged
// Yield/Pause/Note hooks: seeded schedule perturbation plus a record of which
// points were hit and in which order (the interleaving signature).
package perturb

import (
	"crypto/sha256"
	"encoding/hex"
	"runtime"
	"sync"
	"time"

	"hop.computer/hop/pkg/verifhook"
)

// callerSites are the Pause points executed by a goroutine that called into
// the package from outside (Close, Stop, Handshake ...). Only those may sleep
// in a bubble. A service goroutine (muxer sender/receiver, per-tube send and
// initiate loops) must not: other goroutines hand frames to it over unbuffered
// channels while holding a tube mutex, and a third goroutine queueing on that
// mutex is not "durably blocked" for synctest, so virtual time would stop and
// the sleeper never wake (DESIGN 2.3). In real-time mode every Pause may sleep.
var callerSites = map[string]bool{
	"tubes.Muxer.Stop:enter": true, "tubes.Muxer.Stop:stopping": true, "tubes.Muxer.Stop:tubes-closed": true,
	"tubes.Muxer.Stop:before-underlying-close": true, "tubes.Muxer.reapTube:closed": true,
	"tubes.Reliable.Close:enter": true, "tubes.Unreliable.Close:enter": true, "tubes.Unreliable.Close:state-published": true,
	"transport.Client.Handshake:elected": true, "transport.Client.Handshake:before-publish": true, "transport.Client.Handshake:before-open": true,
	"transport.Client.Close:elected": true, "transport.Client.Close:socket-closed": true,
	"transport.Server.Close:elected": true, "transport.Server.Close:socket-closed": true, "transport.Server.Close:workers-done": true,
	"transport.Server.Serve:started": true, "transport.Handle.Close:enter": true,
	// the transport's receive loops hold no lock right after a datagram was read
	"transport.Server.readPacket:read": true, "transport.Client.listen:read": true,
}

// P is one installed perturber.
type P struct {
	mu       sync.Mutex
	s        uint64
	realTime bool
	hits     map[string]int
	notes    map[string]int
	h        [32]byte
	n        int
	prev     *verifhook.Handler
	Strength int // 0..100: probability (in %) that a point perturbs
}

func (p *P) next() uint64 {
	p.s += 0x9E3779B97F4A7C15
	z := p.s
	z = (z ^ (z >> 30)) * 0xBF58476D1CE4E5B9
	z = (z ^ (z >> 27)) * 0x94D049BB133111EB
	return z ^ (z >> 31)
}

func (p *P) record(point string) uint64 {
	p.mu.Lock()
	p.hits[point]++
	p.n++
	if p.n < 5000 { // the signature covers the first 5000 points of the execution
		hh := sha256.New()
		hh.Write(p.h[:])
		hh.Write([]byte(point))
		copy(p.h[:], hh.Sum(nil))
	}
	v := p.next()
	p.mu.Unlock()
	return v
}

// Install makes p the active handler. realTime allows tiny real sleeps at
// Yield points too (in a bubble a sleeping goroutine that holds a mutex stops
// virtual time, so there only Pause points sleep).
func Install(seed uint64, realTime bool, strength int) *P {
	p := &P{s: seed, realTime: realTime, hits: map[string]int{}, notes: map[string]int{}, Strength: strength}
	h := &verifhook.Handler{
		Yield: func(point string) {
			v := p.record(point)
			if int(v%100) >= p.Strength {
				return
			}
			for k := uint64(0); k <= (v>>8)%3; k++ {
				runtime.Gosched()
			}
			if p.realTime && (v>>16)%4 == 0 {
				time.Sleep(time.Duration(1+(v>>20)%200) * time.Microsecond)
			}
		},
		Pause: func(point string) {
			v := p.record(point)
			if int(v%100) >= p.Strength {
				return
			}
			switch {
			case (v>>8)%3 == 0:
				runtime.Gosched()
			case p.realTime:
				time.Sleep(time.Duration(1+(v>>20)%300) * time.Microsecond)
			case callerSites[point]:
				// virtual: every other goroutine runs to its next blocking point
				time.Sleep(time.Duration(1+(v>>20)%3000) * time.Microsecond)
			default:
				runtime.Gosched()
				runtime.Gosched()
			}
		},
		Note: func(kind string, a, b int64) {
			p.mu.Lock()
			p.notes[kind]++
			p.mu.Unlock()
		},
	}
	p.prev = verifhook.Install(h)
	return p
}

// Remove uninstalls the handler.
func (p *P) Remove() { verifhook.Install(p.prev) }

// Signature is the hash of the observed order of hook points.
func (p *P) Signature() string {
	p.mu.Lock()
	defer p.mu.Unlock()
	return hex.EncodeToString(p.h[:8])
}

// Hits returns a copy of the per-point hit counts.
func (p *P) Hits() map[string]int {
	p.mu.Lock()
	defer p.mu.Unlock()
	out := map[string]int{}
	for k, v := range p.hits {
		out[k] = v
	}
	return out
}
