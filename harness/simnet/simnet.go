// Package simnet is a simulated datagram network implementing
// transport.UDPLike for any number of endpoints. Every datagram written by an
// endpoint is handed to the installed adversary policy, which decides what is
// delivered, to whom, from which apparent source, and when. All timing uses
// package time, so inside a testing/synctest bubble delays are virtual.
package simnet

import (
	"crypto/sha256"
	"errors"
	"fmt"
	"net"
	"os"
	"sync"
	"time"
)

// Datagram is one datagram as sent by an endpoint.
type Datagram struct {
	Seq  int
	Src  *net.UDPAddr
	Dst  *net.UDPAddr
	Data []byte
	At   time.Time
}

// Delivery is one datagram as the adversary wants it delivered.
type Delivery struct {
	Data  []byte
	Src   *net.UDPAddr
	Dst   *net.UDPAddr
	Delay time.Duration
	Tag   string // origin tag for the wire log (genuine, dup, corrupt:…, forged, …)
}

// Policy decides the fate of a datagram. A nil policy delivers faithfully.
// It is called in the sender's goroutine without any simnet lock held.
type Policy func(d *Datagram) []Delivery

// WireEvent is an entry of the wire log.
type WireEvent struct {
	Seq   int       // sequence number of the send this derives from (-1 for injections)
	Kind  string    // "tx" (as sent) or "rx" (as delivered)
	At    time.Time // bubble or real time
	Src   string
	Dst   string
	Len   int
	Tag   string
	Data  []byte
	SHA   [8]byte
	Order int
}

// Net is the network.
type Net struct {
	mu      sync.Mutex
	polMu   sync.Mutex // serializes the adversary policy
	eps     map[string]*Endpoint
	policy  Policy
	log     []WireEvent
	keep    bool
	seq     int
	order   int
	dropped int
}

// New creates a network. If keepLog, every tx/rx is recorded with its bytes.
func New(keepLog bool) *Net {
	return &Net{eps: map[string]*Endpoint{}, keep: keepLog}
}

// SetPolicy installs the adversary.
func (n *Net) SetPolicy(p Policy) {
	n.mu.Lock()
	n.policy = p
	n.mu.Unlock()
}

// Log returns a copy of the wire log.
func (n *Net) Log() []WireEvent {
	n.mu.Lock()
	defer n.mu.Unlock()
	return append([]WireEvent(nil), n.log...)
}

// LogLen returns the current length of the wire log.
func (n *Net) LogLen() int {
	n.mu.Lock()
	defer n.mu.Unlock()
	return len(n.log)
}

// LogSince returns the events from index i on.
func (n *Net) LogSince(i int) []WireEvent {
	n.mu.Lock()
	defer n.mu.Unlock()
	if i > len(n.log) {
		i = len(n.log)
	}
	return append([]WireEvent(nil), n.log[i:]...)
}

func key(a *net.UDPAddr) string {
	if a == nil {
		return "<nil>"
	}
	return a.String()
}

// Addr builds a UDP address 10.x.y.z:port from a small integer.
func Addr(i int, port int) *net.UDPAddr {
	return &net.UDPAddr{IP: net.IPv4(10, byte(i>>16), byte(i>>8), byte(i)), Port: port}
}

// Listen registers a new endpoint at addr.
func (n *Net) Listen(addr *net.UDPAddr) *Endpoint {
	e := &Endpoint{net: n, addr: addr, wake: make(chan struct{})}
	n.mu.Lock()
	n.eps[key(addr)] = e
	n.mu.Unlock()
	return e
}

// Alias makes datagrams sent to addr reach e as well (roaming).
func (n *Net) Alias(e *Endpoint, addr *net.UDPAddr) {
	n.mu.Lock()
	n.eps[key(addr)] = e
	n.mu.Unlock()
}

func (n *Net) record(ev WireEvent) {
	if !n.keep {
		return
	}
	h := sha256.Sum256(ev.Data)
	copy(ev.SHA[:], h[:8])
	ev.At = time.Now()
	ev.Order = n.order
	n.order++
	n.log = append(n.log, ev)
}

// send is called by endpoints.
func (n *Net) send(src, dst *net.UDPAddr, data []byte) {
	cp := append([]byte(nil), data...)
	n.mu.Lock()
	seq := n.seq
	n.seq++
	pol := n.policy
	n.record(WireEvent{Seq: seq, Kind: "tx", Src: key(src), Dst: key(dst), Len: len(cp), Data: cp})
	n.mu.Unlock()
	d := &Datagram{Seq: seq, Src: src, Dst: dst, Data: cp, At: time.Now()}
	var out []Delivery
	if pol == nil {
		out = []Delivery{{Data: cp, Src: src, Dst: dst, Tag: "genuine"}}
	} else {
		// policies are closures of the test cases and keep state (captured
		// messages, counters): one at a time, whichever endpoint's goroutine
		// is sending
		n.polMu.Lock()
		out = pol(d)
		n.polMu.Unlock()
	}
	for _, dl := range out {
		n.deliver(seq, dl)
	}
}

// Inject delivers an adversary-made datagram.
func (n *Net) Inject(dl Delivery) { n.deliver(-1, dl) }

func (n *Net) deliver(seq int, dl Delivery) {
	if dl.Delay > 0 {
		d2 := dl
		d2.Delay = 0
		time.AfterFunc(dl.Delay, func() { n.deliver(seq, d2) })
		return
	}
	n.mu.Lock()
	e := n.eps[key(dl.Dst)]
	n.record(WireEvent{Seq: seq, Kind: "rx", Src: key(dl.Src), Dst: key(dl.Dst), Len: len(dl.Data), Tag: dl.Tag, Data: dl.Data})
	n.mu.Unlock()
	if e == nil {
		n.mu.Lock()
		n.dropped++
		n.mu.Unlock()
		return
	}
	e.enqueue(pkt{data: append([]byte(nil), dl.Data...), src: dl.Src})
}

type pkt struct {
	data []byte
	src  *net.UDPAddr
}

// Endpoint is a socket on the simulated network.
type Endpoint struct {
	net *Net

	mu       sync.Mutex
	addr     *net.UDPAddr // current source address
	q        []pkt
	closed   bool
	rdl      time.Time
	wake     chan struct{}
	maxQueue int
	peer     *net.UDPAddr  // default destination for Write
	werr     error         // when set, writes fail with it while reads go on
	gate     chan struct{} // the next write blocks in the "socket" until this is closed
	entered  chan struct{} // closed when that write has entered the socket
}

var _ net.Conn = (*Endpoint)(nil)

func (e *Endpoint) signalLocked() {
	close(e.wake)
	e.wake = make(chan struct{})
}

func (e *Endpoint) enqueue(p pkt) {
	e.mu.Lock()
	if e.closed || (e.maxQueue > 0 && len(e.q) >= e.maxQueue) {
		e.mu.Unlock()
		return
	}
	e.q = append(e.q, p)
	e.signalLocked()
	e.mu.Unlock()
}

// SetSource changes the address the endpoint sends from (roaming) and makes
// the endpoint reachable at that address.
func (e *Endpoint) SetSource(a *net.UDPAddr) {
	e.net.Alias(e, a)
	e.mu.Lock()
	e.addr = a
	e.mu.Unlock()
}

// FailWrites makes every later write of this socket fail with err (a refused
// destination, a full send buffer) while reads keep being served.
func (e *Endpoint) FailWrites(err error) { e.mu.Lock(); e.werr = err; e.mu.Unlock() }

// HoldNextWrite makes the next write of this socket block inside the write (as
// a full send buffer would) until release is closed; entered is closed when
// the write is being held.
func (e *Endpoint) HoldNextWrite(release chan struct{}) (entered chan struct{}) {
	e.mu.Lock()
	defer e.mu.Unlock()
	e.gate, e.entered = release, make(chan struct{})
	return e.entered
}

// SetPeer sets the default destination of Write.
func (e *Endpoint) SetPeer(a *net.UDPAddr) { e.mu.Lock(); e.peer = a; e.mu.Unlock() }

// Source returns the current source address.
func (e *Endpoint) Source() *net.UDPAddr { e.mu.Lock(); defer e.mu.Unlock(); return e.addr }

type timeoutError struct{}

func (timeoutError) Error() string   { return "simnet: i/o timeout" }
func (timeoutError) Timeout() bool   { return true }
func (timeoutError) Temporary() bool { return true }
func (timeoutError) Unwrap() error   { return os.ErrDeadlineExceeded }

// ErrClosed is returned by operations on a closed endpoint.
var ErrClosed = fmt.Errorf("simnet: %w", net.ErrClosed)

// ReadMsgUDP implements transport.UDPLike.
func (e *Endpoint) ReadMsgUDP(b, oob []byte) (n, oobn, flags int, addr *net.UDPAddr, err error) {
	for {
		e.mu.Lock()
		// as on a real socket, a read deadline that has passed fails the
		// read even when a datagram is waiting
		if !e.rdl.IsZero() && !e.closed && time.Until(e.rdl) <= 0 {
			e.mu.Unlock()
			return 0, 0, 0, nil, timeoutError{}
		}
		if len(e.q) > 0 {
			p := e.q[0]
			e.q = e.q[1:]
			e.mu.Unlock()
			n = copy(b, p.data)
			// a fresh address object per read, as the net package returns
			src := &net.UDPAddr{IP: append(net.IP(nil), p.src.IP...), Port: p.src.Port, Zone: p.src.Zone}
			return n, 0, 0, src, nil
		}
		if e.closed {
			e.mu.Unlock()
			return 0, 0, 0, nil, ErrClosed
		}
		dl := e.rdl
		wake := e.wake
		e.mu.Unlock()
		if dl.IsZero() {
			<-wake
			continue
		}
		d := time.Until(dl)
		if d <= 0 {
			return 0, 0, 0, nil, timeoutError{}
		}
		t := time.NewTimer(d)
		select {
		case <-wake:
			t.Stop()
		case <-t.C:
		}
	}
}

// WriteMsgUDP implements transport.UDPLike.
func (e *Endpoint) WriteMsgUDP(b, oob []byte, addr *net.UDPAddr) (n, oobn int, err error) {
	e.mu.Lock()
	if e.closed {
		e.mu.Unlock()
		return 0, 0, ErrClosed
	}
	if e.werr != nil {
		err := e.werr
		e.mu.Unlock()
		return 0, 0, err
	}
	if g := e.gate; g != nil {
		e.gate = nil
		close(e.entered)
		e.mu.Unlock()
		<-g // a full send buffer: the caller is held inside the socket write
		e.mu.Lock()
	}
	src := e.addr
	if addr == nil {
		addr = e.peer
	}
	e.mu.Unlock()
	if addr == nil {
		return 0, 0, errors.New("simnet: no destination")
	}
	e.net.send(src, addr, b)
	return len(b), 0, nil
}

// Read implements net.Conn.
func (e *Endpoint) Read(b []byte) (int, error) {
	n, _, _, _, err := e.ReadMsgUDP(b, nil)
	return n, err
}

// Write implements net.Conn.
func (e *Endpoint) Write(b []byte) (int, error) {
	n, _, err := e.WriteMsgUDP(b, nil, nil)
	return n, err
}

// Close implements net.Conn.
func (e *Endpoint) Close() error {
	e.mu.Lock()
	defer e.mu.Unlock()
	if e.closed {
		return ErrClosed
	}
	e.closed = true
	e.signalLocked()
	return nil
}

// LocalAddr implements net.Conn.
func (e *Endpoint) LocalAddr() net.Addr { return e.Source() }

// RemoteAddr implements net.Conn.
func (e *Endpoint) RemoteAddr() net.Addr {
	e.mu.Lock()
	defer e.mu.Unlock()
	if e.peer == nil {
		return &net.UDPAddr{}
	}
	return e.peer
}

// SetDeadline implements net.Conn.
func (e *Endpoint) SetDeadline(t time.Time) error { return e.SetReadDeadline(t) }

// SetReadDeadline implements net.Conn.
func (e *Endpoint) SetReadDeadline(t time.Time) error {
	e.mu.Lock()
	defer e.mu.Unlock()
	if e.closed {
		return ErrClosed
	}
	e.rdl = t
	e.signalLocked()
	return nil
}

// SetWriteDeadline implements net.Conn (writes never block).
func (e *Endpoint) SetWriteDeadline(t time.Time) error { return nil }

// QueueLen returns the number of datagrams waiting to be read.
func (e *Endpoint) QueueLen() int { e.mu.Lock(); defer e.mu.Unlock(); return len(e.q) }
