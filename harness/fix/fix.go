// Package fix builds key material, certificate chains and transport
// endpoints for the engines. Everything must be created inside the bubble of
// the case that uses it (certificate validity is relative to time.Now()).
package fix

import (
	"bytes"
	"crypto/ed25519"
	"crypto/rand"
	"fmt"
	"net"
	"sync"
	"time"

	"hop.computer/hop/authkeys"
	"hop.computer/hop/certs"
	"hop.computer/hop/keys"
	"hop.computer/hop/transport"

	"verif/harness/simnet"
)

// PKI is a root and an intermediate with their keys.
type PKI struct {
	RootKey *keys.SigningKeyPair
	Root    *certs.Certificate
	IntKey  *keys.SigningKeyPair
	Int     *certs.Certificate
	store   *certs.Store
	storeMu sync.Mutex
}

func must[T any](v T, err error) T {
	if err != nil {
		panic("fix: " + err.Error())
	}
	return v
}

// NewPKI creates a root and an intermediate valid from now.
func NewPKI() *PKI {
	p := &PKI{RootKey: keys.GenerateNewSigningKeyPair(), IntKey: keys.GenerateNewSigningKeyPair()}
	p.Root = must(certs.SelfSignRoot(certs.SigningIdentity(p.RootKey), p.RootKey))
	if err := p.Root.ProvideKey((*[32]byte)(&p.RootKey.Private)); err != nil {
		panic(err)
	}
	p.Int = must(certs.IssueIntermediate(p.Root, certs.SigningIdentity(p.IntKey)))
	if err := p.Int.ProvideKey((*[32]byte)(&p.IntKey.Private)); err != nil {
		panic(err)
	}
	return p
}

// Store returns a trust store holding the root.
// Every call returns a copy of one Store value, as the verifiers of one
// deployment share one trust store (and whatever it keeps between
// verifications) across all their handshakes.
func (p *PKI) Store() certs.Store {
	p.storeMu.Lock()
	defer p.storeMu.Unlock()
	if p.store == nil {
		p.store = &certs.Store{}
		p.store.AddCertificate(p.Root)
	}
	return *p.store
}

// Identity is a static DH key pair with a certificate for it.
type Identity struct {
	Key  *keys.X25519KeyPair
	Leaf *certs.Certificate
	Int  *certs.Certificate // nil for self-signed
	KEM  *keys.KEMKeyPair   // servers only
}

// Issue creates a leaf for a fresh key under the PKI's intermediate.
func (p *PKI) Issue(names ...certs.Name) *Identity {
	k := keys.GenerateNewX25519KeyPair()
	leaf := must(certs.IssueLeaf(p.Int, certs.LeafIdentity(k, names...)))
	return &Identity{Key: k, Leaf: leaf, Int: p.Int}
}

// IssueServer is Issue plus a KEM key pair.
func (p *PKI) IssueServer(names ...certs.Name) *Identity {
	id := p.Issue(names...)
	id.KEM = must(keys.GenerateKEMKeyPair(rand.Reader))
	return id
}

// SelfSigned creates a self-signed leaf (authorized-keys style client).
func SelfSigned(names ...certs.Name) *Identity {
	k := keys.GenerateNewX25519KeyPair()
	leaf := must(certs.SelfSignLeaf(&certs.Identity{PublicKey: k.Public, Names: names}))
	return &Identity{Key: k, Leaf: leaf}
}

// ServerConfig builds a transport.ServerConfig for an identity.
func ServerConfig(id *Identity, clientVerify *transport.VerifyConfig, hsTimeout time.Duration) transport.ServerConfig {
	return transport.ServerConfig{
		KeyPair:          id.Key,
		KEMKeyPair:       id.KEM,
		Certificate:      id.Leaf,
		Intermediate:     id.Int,
		HandshakeTimeout: hsTimeout,
		ClientVerify:     clientVerify,
	}
}

// ClientConfig builds a transport.ClientConfig.
func ClientConfig(id *Identity, verify transport.VerifyConfig, hsTimeout time.Duration, hidden *keys.KEMPublicKey) transport.ClientConfig {
	return transport.ClientConfig{
		Exchanger:    id.Key,
		Leaf:         id.Leaf,
		Intermediate: id.Int,
		Verify:       verify,
		HSTimeout:    hsTimeout,
		ServerKEMKey: hidden,
	}
}

// AuthKeys returns a key set holding the given identities' static keys.
func AuthKeys(ids ...*Identity) *authkeys.SyncAuthKeySet {
	s := authkeys.NewSyncAuthKeySet()
	for _, id := range ids {
		s.AddKey(id.Key.Public)
	}
	return s
}

// World is one simulated network with a running server.
type World struct {
	Net      *simnet.Net
	PKI      *PKI
	ServerID *Identity
	Server   *transport.Server
	SrvEP    *simnet.Endpoint
	SrvAddr  *net.UDPAddr
	nextAddr int
	// V6 makes FreshAddr hand out IPv6 client addresses.
	V6 bool
}

// ServerName is the name in the server's certificate.
var ServerName = certs.DNSName("server.example")

// NewWorld starts a server on a fresh network. clientVerify may be nil.
func NewWorld(keepLog bool, clientVerify *transport.VerifyConfig, tweak func(*transport.ServerConfig)) *World {
	pki := NewPKI()
	return NewWorldWith(pki, pki.IssueServer(ServerName), keepLog, clientVerify, tweak)
}

// NewWorldWith is NewWorld for an existing PKI and server identity (a twin of
// a server created elsewhere, e.g. in another bubble with another clock).
func NewWorldWith(pki *PKI, sid *Identity, keepLog bool, clientVerify *transport.VerifyConfig, tweak func(*transport.ServerConfig)) *World {
	w := &World{Net: simnet.New(keepLog), PKI: pki, nextAddr: 100}
	w.ServerID = sid
	w.SrvAddr = simnet.Addr(1, 7777)
	w.SrvEP = w.Net.Listen(w.SrvAddr)
	cfg := ServerConfig(w.ServerID, clientVerify, 5*time.Second)
	if tweak != nil {
		tweak(&cfg)
	}
	w.Server = must(transport.NewServer(w.SrvEP, cfg))
	go w.Server.Serve()
	return w
}

// FreshAddr returns an unused client address.
func (w *World) FreshAddr() *net.UDPAddr {
	w.nextAddr++
	if w.V6 {
		ip := net.ParseIP("fd00:1234::")
		ip[13], ip[14], ip[15] = byte(w.nextAddr>>16), byte(w.nextAddr>>8), byte(w.nextAddr)
		return &net.UDPAddr{IP: ip, Port: 40000 + w.nextAddr%20000}
	}
	return simnet.Addr(w.nextAddr, 40000+w.nextAddr%20000)
}

// VerifyServer is the client's policy for the world's server.
func (w *World) VerifyServer() transport.VerifyConfig {
	return transport.VerifyConfig{Store: w.PKI.Store(), Name: ServerName}
}

// NewClient creates a client endpoint at a fresh address.
func (w *World) NewClient(id *Identity, hidden bool, hsTimeout time.Duration) (*transport.Client, *simnet.Endpoint) {
	addr := w.FreshAddr()
	ep := w.Net.Listen(addr)
	var kem *keys.KEMPublicKey
	if hidden {
		kem = &w.ServerID.KEM.Public
	}
	c := transport.NewClient(ep, w.SrvAddr, ClientConfig(id, w.VerifyServer(), hsTimeout, kem))
	return c, ep
}

// Describe renders an address.
func Describe(a *net.UDPAddr) string { return fmt.Sprint(a) }

// ---------------------------------------------------------------------------
// certificate forge: certificates the issuing API refuses to make

// CertSpec describes a certificate to forge.
type CertSpec struct {
	Type      certs.CertificateType
	Names     []certs.Name
	Issued    time.Time
	Expires   time.Time
	PublicKey [32]byte
	Parent    [32]byte  // fingerprint named as parent (zero for none)
	SignSeed  *[32]byte // Ed25519 seed of the signer; nil: garbage signature
}

// Forge serialises, signs and re-parses a certificate.
func Forge(s CertSpec) *certs.Certificate {
	c := &certs.Certificate{Version: certs.Version, Type: s.Type, IssuedAt: s.Issued, ExpiresAt: s.Expires,
		IDChunk: certs.IDChunk{Blocks: s.Names}, PublicKey: keys.DHPublicKey(s.PublicKey), Parent: s.Parent}
	raw := must(c.Marshal())
	tbs := raw[:len(raw)-certs.SignatureLen]
	if s.SignSeed != nil {
		sig := ed25519.Sign(ed25519.NewKeyFromSeed(s.SignSeed[:]), tbs)
		copy(raw[len(tbs):], sig)
	} else {
		for i := range raw[len(tbs):] {
			raw[len(tbs)+i] = byte(0xA0 + i)
		}
	}
	out := new(certs.Certificate)
	if _, err := out.ReadFrom(bytes.NewReader(raw)); err != nil {
		panic("fix: forged certificate does not parse: " + err.Error())
	}
	return out
}

// Raw returns the serialisation of a certificate (nil for nil).
func Raw(c *certs.Certificate) []byte {
	if c == nil {
		return nil
	}
	return must(c.Marshal())
}
