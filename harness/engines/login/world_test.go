package login

import (
	"encoding/binary"
	"errors"
	"fmt"
	"io"
	"net"
	"path/filepath"
	"sync/atomic"
	"time"

	"github.com/sirupsen/logrus"

	"hop.computer/hop/authgrants"
	"hop.computer/hop/authkeys"
	"hop.computer/hop/codex"
	"hop.computer/hop/common"
	"hop.computer/hop/config"
	"hop.computer/hop/hopserver"
	"hop.computer/hop/portforwarding"
	"hop.computer/hop/transport"
	"hop.computer/hop/tubes"
	"hop.computer/hop/userauth"

	"verif/harness/fix"
	"verif/harness/simnet"
)

// answerWait bounds the wait for an answer the server always sends; its
// expiry is "no answer" (never a verdict by itself: every property judged
// here is a safety property over what *was* granted or started).
const answerWait = 8 * time.Second

type world struct {
	w    *fix.World
	hs   *hopserver.HopServer
	ks   *authkeys.SyncAuthKeySet
	fs   *memFS
	cfg  *config.ServerConfig
	mode string // shared: transport admits only keys in the server's key set; open: any well-formed client certificate
	cls  []*rawClient
}

func newWorld(enableAG bool, mode string) *world {
	x := &world{ks: authkeys.NewSyncAuthKeySet(), fs: newMemFS(), mode: mode}
	cv := &transport.VerifyConfig{AuthKeys: x.ks, AuthKeysAllowed: true}
	if mode == "open" {
		cv = &transport.VerifyConfig{InsecureSkipVerify: true}
	}
	x.w = fix.NewWorld(false, cv, nil)
	x.cfg = &config.ServerConfig{EnableAuthgrants: enableAG, EnableAuthorizedKeys: true, DataTimeout: 5 * time.Second}
	hs, err := hopserver.NewHopServerExt(x.w.Server, x.cfg, x.ks)
	if err != nil {
		panic(err)
	}
	hs.VerifSetFS(x.fs)
	x.hs = hs
	go func() {
		for {
			h, err := x.w.Server.AcceptTimeout(time.Hour)
			if err != nil {
				return
			}
			go hs.VerifNewSession(h)
		}
	}()
	return x
}

// teardown releases the world in the background: nothing is judged on it.
func (x *world) teardown() {
	cls := x.cls
	go func() {
		for _, c := range cls {
			c.close()
		}
		x.hs.Close()
	}()
}

type rawClient struct {
	id   *fix.Identity
	tc   *transport.Client
	ep   *simnet.Endpoint
	mux  *tubes.Muxer
	dead atomic.Bool
}

func (x *world) connect(id *fix.Identity) (*rawClient, error) {
	tc, ep := x.w.NewClient(id, false, time.Second)
	if err := tc.Handshake(); err != nil {
		ep.Close()
		return nil, err
	}
	// The client's handshake ends with its own last flight: whether the server
	// admitted it only shows in the server's session table. Looking there saves
	// the tube time-outs a refused client would otherwise run into; a session
	// that appears later than the grace period is taken as refused, which can
	// only reduce what is observed.
	if cs, ok := tc.VerifSession(); ok {
		admitted := false
		for k := 0; k < 60 && !admitted; k++ {
			for _, ss := range x.w.Server.VerifSessions() {
				if ss.ID == cs.ID && ss.Established {
					admitted = true
				}
			}
			if !admitted {
				time.Sleep(5 * time.Millisecond)
			}
		}
		if !admitted {
			go func() { tc.Close(); ep.Close() }()
			return nil, errors.New("server did not admit the client (no session in its table)")
		}
	}
	c := &rawClient{id: id, tc: tc, ep: ep}
	c.mux = tubes.Client(tc, &tubes.Config{Timeout: 1500 * time.Millisecond, Log: logrus.WithField("muxer", "harness")})
	x.cls = append(x.cls, c)
	return c, nil
}

// close ends the connection; the muxer's orderly stop takes about a second
// and nothing is judged on it, so it runs in the background.
func (c *rawClient) close() {
	if c.dead.Swap(true) {
		return
	}
	go func() {
		c.mux.Stop()
		c.tc.Close()
		c.ep.Close()
	}()
}

func readN(t *tubes.Reliable, n int) ([]byte, error) {
	t.SetReadDeadline(time.Now().Add(answerWait))
	b := make([]byte, n)
	_, err := io.ReadFull(t, b)
	return b, err
}

// login performs the user-auth exchange; confirmed iff the confirmation byte arrives.
func (c *rawClient) login(user string) (bool, string) {
	ua, err := c.mux.CreateReliableTube(common.UserAuthTube)
	if err != nil {
		return false, "tube: " + err.Error()
	}
	defer ua.Close()
	msg := userauth.VerifInit(user)
	if msg == nil {
		return false, "username not encodable"
	}
	if _, err := ua.Write(msg); err != nil {
		return false, "write: " + err.Error()
	}
	b, err := readN(ua, 1)
	if err != nil {
		return false, "no confirmation: " + err.Error()
	}
	if b[0] == userauth.UserAuthConf {
		return true, "confirmed"
	}
	return false, fmt.Sprintf("byte %d", b[0])
}

// exec asks for a command / shell and returns the server's answer.
func (c *rawClient) exec(cmd string, pty bool) (string, string) {
	in, err := c.mux.CreateReliableTube(common.ExecTube)
	if err != nil {
		return "none", "tube: " + err.Error()
	}
	out, err := c.mux.CreateReliableTube(common.ExecTube)
	if err != nil {
		in.Close()
		return "none", "tube: " + err.Error()
	}
	defer func() { in.Close(); out.Close() }()
	// A session's pty channel holds one value and only a window-size tube
	// takes it out: without one, a second execution request in a session
	// blocks for ever (holding a server-wide lock) before anything starts.
	// The real client opens the tube only with a pty; the harness always does,
	// so that every request gets its answer.
	if ws, err := c.mux.CreateReliableTube(common.WinSizeTube); err == nil {
		defer ws.Close()
	}
	if _, err := in.Write(codex.VerifExecInit(pty, cmd, "dumb", nil)); err != nil {
		return "none", "write: " + err.Error()
	}
	b, err := readN(out, 1)
	if err != nil {
		return "none", err.Error()
	}
	if b[0] == 1 { // execConf
		return "conf", ""
	}
	l, err := readN(out, 4)
	if err != nil {
		return "fail", "?"
	}
	m, _ := readN(out, int(binary.BigEndian.Uint16(l)))
	return "fail", string(m)
}

// pfControl asks for a forward; returns success | failure | none.
func (c *rawClient) pfControl(fwdType int, addr net.Addr) string {
	t, err := c.mux.CreateReliableTube(common.PFControlTube)
	if err != nil {
		return "none"
	}
	defer t.Close()
	if _, err := t.Write(portforwarding.VerifToBytes(addr, fwdType)); err != nil {
		return "none"
	}
	b, err := readN(t, 1)
	if err != nil {
		return "none"
	}
	if b[0] == 1 {
		return "success"
	}
	return "failure"
}

// pfData opens a forwarding data tube (the server dials the agreed address).
func (c *rawClient) pfData() {
	t, err := c.mux.CreateReliableTube(common.PFTube)
	if err != nil {
		return
	}
	t.Write([]byte("ping"))
	time.Sleep(20 * time.Millisecond)
	t.Close()
}

// agc submits an intent as a principal would; returns confirmed | denied | none.
func (c *rawClient) agc(in authgrants.Intent) (string, string) {
	t, err := c.mux.CreateReliableTube(common.AuthGrantTube)
	if err != nil {
		return "none", err.Error()
	}
	defer t.Close()
	if err := authgrants.WriteIntentCommunication(t, in); err != nil {
		return "none", err.Error()
	}
	t.SetReadDeadline(time.Now().Add(answerWait))
	m, err := authgrants.ReadConfOrDenial(t)
	if err != nil {
		return "none", err.Error()
	}
	if m.MsgType == authgrants.IntentConfirmation {
		return "confirmed", ""
	}
	return "denied", m.Data.Denial
}

// otherTube opens and closes a tube of a type that starts nothing.
func (c *rawClient) otherTube(tt byte) {
	t, err := c.mux.CreateReliableTube(tubes.TubeType(tt))
	if err != nil {
		return
	}
	t.Write([]byte{0, 24, 0, 80, 0, 0, 0, 0})
	t.Close()
}

// probe is a listener the server may dial (local forward); accepted counts connections.
type probe struct {
	l        net.Listener
	addr     net.Addr
	accepted atomic.Int64
}

var probeSeq atomic.Int64

func newProbe(unix bool) *probe {
	p := &probe{}
	var err error
	if unix {
		path := filepath.Join(scratch, fmt.Sprintf("p%d.sock", probeSeq.Add(1)))
		p.l, err = net.Listen("unix", path)
		p.addr = &net.UnixAddr{Name: path, Net: "unix"}
	} else {
		p.l, err = net.Listen("tcp", "127.0.0.1:0")
		if err == nil {
			p.addr = p.l.Addr()
		}
	}
	if err != nil {
		return nil
	}
	go func() {
		for {
			c, err := p.l.Accept()
			if err != nil {
				return
			}
			p.accepted.Add(1)
			c.Close()
		}
	}()
	return p
}

func (p *probe) close() { p.l.Close() }

func unixAddr(path string) net.Addr { return &net.UnixAddr{Name: path, Net: "unix"} }

func dialUnix(path string) (net.Conn, error) { return net.DialTimeout("unix", path, time.Second) }
