package login

import (
	"fmt"
	"strings"
	"sync"
	"time"

	"hop.computer/hop/authgrants"
	"hop.computer/hop/certs"
	"hop.computer/hop/keys"
	"hop.computer/hop/portforwarding"

	"verif/harness/fix"
	"verif/harness/vh"
)

// ---------------------------------------------------------------------------
// the grant ledger (reference): what was issued for which (user, key)

type grant struct {
	User  string        `json:"user"`
	Key   int           `json:"key"` // index of the delegate identity
	Type  byte          `json:"type"`
	Cmd   string        `json:"cmd"`
	Start time.Duration `json:"start_offset"` // relative to baseTime
	Exp   time.Duration `json:"exp_offset"`
	Via   string        `json:"via"` // func | wire
	// absolute times (Unix seconds) for instants a Duration offset cannot reach
	StartUnix int64 `json:"start_unix,omitempty"`
	ExpUnix   int64 `json:"exp_unix,omitempty"`
}

func (g grant) start() time.Time {
	if g.StartUnix != 0 {
		return time.Unix(g.StartUnix, 0).UTC()
	}
	return baseTime.Add(g.Start)
}

func (g grant) exp() time.Time {
	if g.ExpUnix != 0 {
		return time.Unix(g.ExpUnix, 0).UTC()
	}
	return baseTime.Add(g.Exp)
}

type ledger map[string][]grant // user|key-index -> live (unconsumed) grants

func lk(user string, key int) string { return fmt.Sprintf("%s|%d", user, key) }

func (g grant) intent(ids []*fix.Identity) authgrants.Intent {
	in := authgrants.Intent{
		GrantType:      authgrants.GrantType(g.Type),
		TargetPort:     7777,
		StartTime:      g.start(),
		ExpTime:        g.exp(),
		TargetSNI:      certs.DNSName("server.example"),
		TargetUsername: g.User,
		DelegateCert:   *ids[g.Key].Leaf,
	}
	in.AssociatedData.CommandGrantData.Cmd = g.Cmd
	return in
}

// action is something a grant-admitted session got the server to start.
type action struct {
	Kind string    `json:"kind"` // exec | pf-local | pf-remote | issue-grant
	Cmd  string    `json:"cmd"`
	Pty  bool      `json:"pty"`
	At   time.Time `json:"at"`
}

// usable is liberal at both boundaries: the statement does not say whether a
// grant is effective at its start instant or expired at its expiry instant.
func usable(g grant, t time.Time) bool { return !t.Before(g.start()) && !t.After(g.exp()) }

func typeMatch(a action, g grant) bool {
	switch a.Kind {
	case "exec":
		return (g.Type == byte(authgrants.Command) && g.Cmd == a.Cmd) ||
			(g.Type == byte(authgrants.Shell) && (a.Pty || a.Cmd == ""))
	case "pf-local":
		return g.Type == byte(authgrants.LocalPF)
	case "pf-remote":
		return g.Type == byte(authgrants.RemotePF)
	}
	return false // nothing authorizes issuing further grants
}

// matchAll reports whether every action can be assigned its own usable grant
// (bipartite matching: one grant authorizes a single action).
func matchAll(acts []action, gs []grant) bool {
	owner := make([]int, len(gs))
	for i := range owner {
		owner[i] = -1
	}
	var try func(a int, seen []bool) bool
	try = func(a int, seen []bool) bool {
		for gi, g := range gs {
			if seen[gi] || !typeMatch(acts[a], g) || !usable(g, acts[a].At) {
				continue
			}
			seen[gi] = true
			if owner[gi] < 0 || try(owner[gi], seen) {
				owner[gi] = a
				return true
			}
		}
		return false
	}
	for a := range acts {
		if !try(a, make([]bool, len(gs))) {
			return false
		}
	}
	return true
}

// why classifies the action that no grant covers.
func why(a action, prior []action, gs []grant) string {
	if a.Kind == "issue-grant" {
		return "no-grant-type-authorizes-it"
	}
	var typed []grant
	for _, g := range gs {
		if typeMatch(a, g) {
			typed = append(typed, g)
		}
	}
	if len(typed) == 0 {
		if a.Kind == "exec" {
			for _, g := range gs {
				if g.Type == byte(authgrants.Command) {
					return "command-text-differs-from-every-command-grant"
				}
			}
			return "no-command-or-shell-grant"
		}
		return "no-grant-of-that-type"
	}
	live := 0
	early, late := 0, 0
	for _, g := range typed {
		switch {
		case a.At.Before(g.start()):
			early++
		case a.At.After(g.exp()):
			late++
		default:
			live++
		}
	}
	switch {
	case live > 0:
		return "every-matching-grant-already-used"
	case early > 0 && late == 0:
		return "grant-not-yet-effective"
	case late > 0 && early == 0:
		return "grant-expired"
	}
	return "grants-expired-or-not-yet-effective"
}

// long255 is a harmless command of exactly 255 bytes; the two after it extend it.
var long255 = "true #" + strings.Repeat("x", 249)

var cmdPool = []string{"true", "true ", "TRUE", " true", "true #x", "echo hi", "echo  hi", "true\n",
	long255, long255 + "y", long255[:254], long255 + "\necho appended"}

// ---------------------------------------------------------------------------
// C05 end to end: who gets the confirmation byte

type attempt struct {
	Key  int    `json:"key"`
	User string `json:"user"`
}

func genC05E2E(r *vh.Runner) {
	n := r.Pick(400, 20000)
	for i := 0; i < n; i++ {
		r.Case(fmt.Sprintf("login-history/%d", i), map[string]any{"i": i}, func(c *vh.Case) {
			rng := vh.NewRand(r.Seed, "c05-e2e", i)
			runLoginHistory(r, c, rng, i == 0)
		})
	}
}

func runLoginHistory(r *vh.Runner, c *vh.Case, rng *vh.Rand, sample bool) {
	setClock(baseTime)
	enableAG := rng.Chance(0.6)
	mode := []string{"shared", "open"}[rng.Intn(2)]
	x := newWorld(enableAG, mode)
	defer x.teardown()
	ids := []*fix.Identity{fix.SelfSigned(), fix.SelfSigned(), fix.SelfSigned()}
	pub := func(i int) keys.DHPublicKey { return ids[i].Key.Public }
	files := map[string]genFile{}
	classes := map[string]string{}
	var trace []string
	writeFile := func(u string) {
		t := rng.Intn(len(ids))
		mode := []string{"any", "any", "no-target", "wellformed-only"}[rng.Intn(4)]
		g, class := fileLevel(rng, genKeysFile(rng, pub(t), pub((t+1)%len(ids)), mode))
		files[u], classes[u] = g, class
		x.fs.set(akPath(u), g.Spec)
		trace = append(trace, fmt.Sprintf("file %s: %s target=K%d kinds=%v", u, class, t, g.Kinds))
	}
	for _, u := range []string{"alice", "bob"} {
		writeFile(u)
	}
	// the transport key set, as NewHopServer fills it: every key parsed from the users' files
	allIn := rng.Chance(0.5) // carol lists every key: the transport gate is open for all of them
	for i := range ids {
		in := allIn
		for _, u := range []string{"alice", "bob"} {
			if refListedSpec(files[u].Spec, pub(i)) {
				in = true
			}
		}
		if in {
			x.ks.AddKey(pub(i))
		}
	}
	led := ledger{}
	consumed := map[string]bool{}
	addGrant := func() {
		g := grant{User: []string{"alice", "bob", "alice"}[rng.Intn(3)], Key: rng.Intn(len(ids)), Type: byte(rng.Pick(1, 2, 2, 3, 4)),
			Cmd: cmdPool[rng.Intn(len(cmdPool))], Start: -time.Hour, Exp: time.Hour, Via: "func"}
		in := g.intent(ids)
		err := x.hs.AddAuthGrant(&in)
		trace = append(trace, fmt.Sprintf("grant user=%s key=K%d type=%d -> err=%v", g.User, g.Key, g.Type, err))
		if err == nil {
			if !enableAG {
				c.Violate("C05:grant-stored-although-authgrants-disabled", map[string]any{"trace": trace})
				return
			}
			led[lk(g.User, g.Key)] = append(led[lk(g.User, g.Key)], g)
		}
	}
	for k := rng.Pick(0, 1, 2, 3); k > 0; k-- {
		addGrant()
	}
	if rng.Chance(0.3) {
		// one key holds several grants for one user, some of which have run
		// out: admission does not depend on the clock (C07's subject), and
		// what one key holds is nobody else's
		g := grant{User: []string{"alice", "bob"}[rng.Intn(2)], Key: rng.Intn(len(ids)), Type: byte(authgrants.Command), Cmd: cmdPool[rng.Intn(len(cmdPool))], Via: "func"}
		for k := 2 + rng.Intn(3); k > 0; k-- {
			g.Start, g.Exp = -time.Hour, time.Hour
			if k%2 == 0 {
				g.Start, g.Exp = -3*time.Hour, -2*time.Hour
			}
			in := g.intent(ids)
			if err := x.hs.AddAuthGrant(&in); err == nil && enableAG {
				led[lk(g.User, g.Key)] = append(led[lk(g.User, g.Key)], g)
			}
			trace = append(trace, fmt.Sprintf("grant user=%s key=K%d type=%d window=[%s,%s]", g.User, g.Key, g.Type, g.Start, g.Exp))
		}
	}
	nAtt := 3 + rng.Intn(5)
	for a := 0; a < nAtt && !c.Violated(); a++ {
		at := attempt{Key: rng.Intn(len(ids)), User: []string{"alice", "alice", "bob", "bob", "carol", "mallory", ""}[rng.Intn(7)]}
		if rng.Chance(0.2) {
			writeFile([]string{"alice", "bob"}[rng.Intn(2)])
		}
		if rng.Chance(0.15) {
			addGrant()
		}
		if rng.Chance(0.12) {
			// the configuration object is read live (the repository's own test flips it after start-up)
			enableAG = !enableAG
			x.cfg.EnableAuthgrants = enableAG
			trace = append(trace, fmt.Sprintf("authgrants enabled := %v", enableAG))
		}
		listed := false
		if f, ok := files[at.User]; ok {
			listed = refListedSpec(f.Spec, pub(at.Key))
		}
		live := enableAG && len(led[lk(at.User, at.Key)]) > 0
		r.Count("evaluations", 1)
		r.Count("login_attempts", 1)
		cl, err := x.connect(ids[at.Key])
		if err != nil {
			trace = append(trace, fmt.Sprintf("attempt K%d as %q: handshake refused (%v)", at.Key, at.User, err))
			r.Count("handshake_refused", 1)
			continue
		}
		ok, detail := cl.login(at.User)
		trace = append(trace, fmt.Sprintf("attempt K%d as %q: listed=%v live_grant=%v -> %s", at.Key, at.User, listed, live, detail))
		class := classes[at.User]
		if class == "" {
			class = "no-such-user-file"
		}
		switch {
		case ok && !listed && !live:
			sub := "ag=off"
			if enableAG {
				sub = "ag=on"
			}
			if consumed[lk(at.User, at.Key)] {
				sub += ":grant-already-consumed"
			}
			c.Violate("C05:login-confirmed-without-listed-key-or-live-grant:"+class+":"+sub, map[string]any{
				"attempt": at, "trace": trace, "file_hex": vh.HexCap(files[at.User].Spec.Data, 600), "mode": mode})
		case ok && !listed:
			// admitted through grants: they are consumed now
			r.Count("confirmed_by_grant", 1)
			r.Nontrivial(fmt.Sprintf("grant|%s|%v", class, enableAG))
			delete(led, lk(at.User, at.Key))
			consumed[lk(at.User, at.Key)] = true
		case ok:
			r.Count("confirmed_listed", 1)
			r.Nontrivial(fmt.Sprintf("listed|%s|%v", class, strings.Join(files[at.User].Kinds, ",")))
			// a listed key in a file the server nevertheless refused may have been
			// admitted through its grants: follow the server's map
			if live && len(x.hs.VerifGrants()[at.User][pub(at.Key)]) == 0 {
				delete(led, lk(at.User, at.Key))
				consumed[lk(at.User, at.Key)] = true
			}
		default:
			r.Count("refused", 1)
			if listed || live {
				r.Count("refused_although_allowed_fail_closed", 1)
			} else {
				r.Nontrivial(fmt.Sprintf("refused|%s|%v|%s", class, enableAG, at.User))
			}
		}
		cl.close()
	}
	// the function boundary itself: a grant lookup succeeds only for a live grant with authgrants enabled
	for i := range ids {
		for _, u := range []string{"alice", "bob", "carol", ""} {
			if c.Violated() {
				break
			}
			ags, err := x.hs.AuthorizeKeyAuthGrant(u, pub(i))
			live := enableAG && len(led[lk(u, i)]) > 0
			r.Count("evaluations", 1)
			r.Count("authorize_key_authgrant_calls", 1)
			if err == nil && !live {
				sub := "no-live-grant"
				if !enableAG {
					sub = "authgrants-disabled"
				}
				c.Violate("C05:authorize-key-authgrant-succeeds:"+sub, map[string]any{"user": u, "key": i, "returned": len(ags), "trace": trace})
			}
			if err == nil {
				delete(led, lk(u, i))
			}
		}
	}
	if sample {
		r.Sample(map[string]any{"kind": "login-history", "mode": mode, "authgrants": enableAG, "trace": trace})
	}
}

// ---------------------------------------------------------------------------
// C07: what a grant-admitted session can start

type step struct {
	Op    string        `json:"op"` // exec | shell | pf-local | pf-remote | pf-data | issue | tube | clock | double
	Cmd   string        `json:"cmd,omitempty"`
	Pty   bool          `json:"pty,omitempty"`
	Unix  bool          `json:"unix,omitempty"`
	Dur   time.Duration `json:"dur,omitempty"`
	TubeT byte          `json:"tube_type,omitempty"`
}

func genC07(r *vh.Runner) {
	directed := directedC07()
	for i, d := range directed {
		r.Case(fmt.Sprintf("directed/%d-%s", i, d.name), map[string]any{"name": d.name}, func(c *vh.Case) {
			rng := vh.NewRand(r.Seed, "c07-directed", i)
			runGrantHistory(r, c, rng, d.grants, d.steps, i == 0)
			r.Nontrivial("directed|" + d.name)
		})
	}
	genC07Concurrent(r)
	n := r.Pick(320, 8000)
	for i := 0; i < n; i++ {
		r.Case(fmt.Sprintf("grant-history/%d", i), map[string]any{"i": i}, func(c *vh.Case) {
			rng := vh.NewRand(r.Seed, "c07-hist", i)
			gs, steps := randGrantHistory(r, rng)
			runGrantHistory(r, c, rng, gs, steps, false)
			r.Nontrivial(fmt.Sprintf("hist|%d", i))
		})
	}
}

// genC07Concurrent: one stored grant, several simultaneous grant look-ups for
// its (user, key) at the function boundary the session code uses: the grants
// may be handed out once (a second session holding them could spend them again).
func genC07Concurrent(r *vh.Runner) {
	concurrentConsume(r, "C07:one-grant-handed-to-several-sessions", r.Pick(32, 640))
}

// concurrentConsume is shared by C05 (one live grant admits one login) and C07.
func concurrentConsume(r *vh.Runner, signature string, batches int) {
	const rounds = 1500
	for b := 0; b < batches; b++ {
		r.Case(fmt.Sprintf("concurrent-consume/%d", b), map[string]any{"batch": b, "rounds": rounds}, func(c *vh.Case) {
			x := newWorld(true, "open")
			defer x.teardown()
			ids := []*fix.Identity{fix.SelfSigned()}
			g := cmdGrant("true", -time.Hour, time.Hour)
			in := g.intent(ids)
			workers := 2 + b%3
			for k := 0; k < rounds && !c.Violated(); k++ {
				if err := x.hs.AddAuthGrant(&in); err != nil {
					c.Inconclusive("AddAuthGrant: " + err.Error())
					return
				}
				var start, done sync.WaitGroup
				start.Add(1)
				got := make([]int, workers)
				for w := 0; w < workers; w++ {
					done.Add(1)
					go func() {
						defer done.Done()
						start.Wait()
						if ags, err := x.hs.AuthorizeKeyAuthGrant("alice", ids[0].Key.Public); err == nil {
							got[w] = len(ags)
						}
					}()
				}
				start.Done()
				done.Wait()
				total, holders := 0, 0
				for _, n := range got {
					total += n
					if n > 0 {
						holders++
					}
				}
				r.Count("evaluations", 1)
				if total > 1 {
					c.Violate(signature, map[string]any{"round": k, "workers": workers, "grants_handed_out": got})
				}
				if holders == 1 {
					r.Count("concurrent_lookups_one_winner", 1)
				}
			}
			r.Nontrivial(fmt.Sprintf("concurrent-consume|%d", b))
		})
	}
}

type directedCase struct {
	name   string
	grants []grant
	steps  []step
}

func cmdGrant(cmd string, start, exp time.Duration) grant {
	return grant{User: "alice", Key: 0, Type: byte(authgrants.Command), Cmd: cmd, Start: start, Exp: exp, Via: "func"}
}

func directedC07() []directedCase {
	h := time.Hour
	sh := grant{User: "alice", Key: 0, Type: byte(authgrants.Shell), Start: -h, Exp: h, Via: "func"}
	lpf := grant{User: "alice", Key: 0, Type: byte(authgrants.LocalPF), Start: -h, Exp: h, Via: "func"}
	rpf := grant{User: "alice", Key: 0, Type: byte(authgrants.RemotePF), Start: -h, Exp: h, Via: "func"}
	return []directedCase{
		{"same-command-once", []grant{cmdGrant("true", -h, h)}, []step{{Op: "exec", Cmd: "true"}}},
		{"same-command-twice", []grant{cmdGrant("true", -h, h)}, []step{{Op: "exec", Cmd: "true"}, {Op: "exec", Cmd: "true"}}},
		{"other-command", []grant{cmdGrant("true", -h, h)}, []step{{Op: "exec", Cmd: "echo hi"}, {Op: "exec", Cmd: "true "}, {Op: "exec", Cmd: "TRUE"}, {Op: "exec", Cmd: ""}}},
		{"after-expiry", []grant{cmdGrant("true", -h, h)}, []step{{Op: "clock", Dur: 2 * h}, {Op: "exec", Cmd: "true"}}},
		{"before-start", []grant{cmdGrant("true", h, 2*h)}, []step{{Op: "exec", Cmd: "true"}, {Op: "clock", Dur: 90 * time.Minute}, {Op: "exec", Cmd: "true"}}},
		{"shell-with-command-grant", []grant{cmdGrant("true", -h, h)}, []step{{Op: "exec", Cmd: "", Pty: true}}},
		{"command-with-shell-grant", []grant{sh}, []step{{Op: "exec", Cmd: "true"}, {Op: "exec", Cmd: "", Pty: true}}},
		{"forward-with-command-grant", []grant{cmdGrant("true", -h, h)}, []step{{Op: "pf-local", Unix: true}, {Op: "pf-data"}, {Op: "pf-remote", Unix: true}, {Op: "pf-local"}}},
		{"forward-with-forward-grants", []grant{lpf, rpf}, []step{{Op: "pf-local", Unix: true}, {Op: "pf-data"}, {Op: "pf-remote", Unix: true}, {Op: "pf-local", Unix: true}, {Op: "pf-remote", Unix: true}}},
		{"forward-of-the-other-kind", []grant{lpf}, []step{{Op: "pf-remote", Unix: true}}},
		{"issue-further-grant", []grant{cmdGrant("true", -h, h)}, []step{{Op: "issue"}, {Op: "exec", Cmd: "true"}}},
		{"two-at-once-one-grant", []grant{cmdGrant("true", -h, h)}, []step{{Op: "double", Cmd: "true"}}},
		{"two-forwards-at-once-one-grant", []grant{rpf}, []step{{Op: "double-pf"}, {Op: "pf-remote", Unix: true}}},
		{"two-forwards-at-once-two-grants", []grant{rpf, rpf}, []step{{Op: "double-pf"}, {Op: "pf-remote", Unix: true}}},
		{"two-forwards-and-a-command-at-once", []grant{rpf, cmdGrant("true", -h, h)}, []step{{Op: "double-pf", Cmd: "true"}, {Op: "exec", Cmd: "true"}}},
		{"grant-that-starts-in-800ms", []grant{cmdGrant("true", 800*time.Millisecond, h), {User: "alice", Key: 0, Type: byte(authgrants.Shell), Start: 999 * time.Millisecond, Exp: h, Via: "func"},
			{User: "alice", Key: 0, Type: byte(authgrants.LocalPF), Start: 500 * time.Millisecond, Exp: h, Via: "func"}},
			[]step{{Op: "exec", Cmd: "true"}, {Op: "pf-local", Unix: true}, {Op: "exec", Cmd: "", Pty: true}}},
		{"grant-that-ran-out-200ms-ago", []grant{cmdGrant("true", -h, -200*time.Millisecond)}, []step{{Op: "exec", Cmd: "true"}}},
		{"live-grants-behind-one-that-ran-out", []grant{cmdGrant("date", -3*h, -2*h), cmdGrant("true", -h, h), cmdGrant("echo hi", -h, h), cmdGrant("id", -h, h)},
			[]step{{Op: "exec", Cmd: "echo hi"}, {Op: "exec", Cmd: "echo hi"}, {Op: "exec", Cmd: "id"}, {Op: "exec", Cmd: "id"}, {Op: "exec", Cmd: "true"}, {Op: "exec", Cmd: "true"}}},
		{"two-at-once-two-grants", []grant{cmdGrant("true", -h, h), cmdGrant("true", -h, h)}, []step{{Op: "double", Cmd: "true"}, {Op: "exec", Cmd: "true"}}},
		{"forward-before-start", []grant{{User: "alice", Key: 0, Type: byte(authgrants.LocalPF), Start: h, Exp: 2 * h, Via: "func"}, {User: "alice", Key: 0, Type: byte(authgrants.RemotePF), Start: h, Exp: 2 * h, Via: "func"}},
			[]step{{Op: "pf-local", Unix: true}, {Op: "pf-remote", Unix: true}, {Op: "clock", Dur: 90 * time.Minute}, {Op: "pf-local", Unix: true}, {Op: "pf-remote", Unix: true}}},
		{"forward-after-expiry", []grant{lpf, rpf}, []step{{Op: "clock", Dur: 2 * h}, {Op: "pf-local", Unix: true}, {Op: "pf-remote", Unix: true}}},
		{"shell-before-start", []grant{{User: "alice", Key: 0, Type: byte(authgrants.Shell), Start: h, Exp: 2 * h, Via: "func"}}, []step{{Op: "exec", Cmd: "", Pty: true}}},
		{"shell-after-expiry", []grant{sh}, []step{{Op: "clock", Dur: 2 * h}, {Op: "exec", Cmd: "", Pty: true}}},
		{"wire-grant-before-start", []grant{{User: "alice", Key: 0, Type: byte(authgrants.Command), Cmd: "true", Start: h, Exp: 2 * h, Via: "wire"}}, []step{{Op: "exec", Cmd: "true"}}},
		{"long-command-and-its-extensions", []grant{cmdGrant(long255, -h, h)}, []step{{Op: "exec", Cmd: long255 + "y"}, {Op: "exec", Cmd: long255 + "\necho appended"}, {Op: "exec", Cmd: long255[:254]}, {Op: "exec", Cmd: long255}}},
		{"grant-for-the-26th-century", []grant{{User: "alice", Key: 0, Type: byte(authgrants.Command), Cmd: "true", Via: "func",
			StartUnix: time.Date(2560, 1, 1, 0, 0, 0, 0, time.UTC).Unix(), ExpUnix: time.Date(2660, 1, 1, 0, 0, 0, 0, time.UTC).Unix()}}, []step{{Op: "exec", Cmd: "true"}}},
		{"shell-grant-for-the-26th-century", []grant{{User: "alice", Key: 0, Type: byte(authgrants.Shell), Via: "func",
			StartUnix: time.Date(2570, 6, 1, 0, 0, 0, 0, time.UTC).Unix(), ExpUnix: time.Date(2650, 1, 1, 0, 0, 0, 0, time.UTC).Unix()}}, []step{{Op: "exec", Cmd: "", Pty: true}}},
		{"grant-from-the-far-future", []grant{cmdGrant("true", 290*365*24*h, 291*365*24*h)}, []step{{Op: "exec", Cmd: "true"}}},
		{"other-tubes", []grant{cmdGrant("true", -h, h)}, []step{{Op: "tube", TubeT: 7}, {Op: "tube", TubeT: 99}, {Op: "tube", TubeT: 3}, {Op: "exec", Cmd: "true"}}},
	}
}

func randGrantHistory(r *vh.Runner, rng *vh.Rand) ([]grant, []step) {
	var gs []grant
	for k := 1 + rng.Intn(5); k > 0; k-- {
		g := grant{User: []string{"alice", "alice", "alice", "bob"}[rng.Intn(4)], Key: rng.Pick(0, 0, 0, 1),
			Type: byte(rng.Pick(1, 2, 2, 2, 3, 4)), Cmd: cmdPool[rng.Intn(len(cmdPool))],
			Start: []time.Duration{-time.Hour, -time.Hour, -time.Hour, 0, 30 * time.Minute}[rng.Intn(5)],
			Exp:   []time.Duration{time.Hour, time.Hour, 2 * time.Hour, -10 * time.Minute, 20 * time.Minute}[rng.Intn(5)],
			Via:   []string{"func", "func", "wire"}[rng.Intn(3)]}
		if r.Thorough() && rng.Chance(0.02) {
			g.Type = byte(authgrants.Acme)
		}
		if g.Exp <= g.Start {
			g.Exp = g.Start + 40*time.Minute
			if rng.Chance(0.5) {
				g.Start, g.Exp = -2*time.Hour, -10*time.Minute // expired before it is ever used
			}
		}
		gs = append(gs, g)
	}
	var steps []step
	for k := 2 + rng.Intn(6); k > 0; k-- {
		switch rng.Intn(14) {
		case 0, 1, 2, 3, 4:
			cmd := cmdPool[rng.Intn(len(cmdPool))]
			if rng.Chance(0.6) {
				cmd = gs[rng.Intn(len(gs))].Cmd
			}
			steps = append(steps, step{Op: "exec", Cmd: cmd})
		case 5:
			steps = append(steps, step{Op: "exec", Cmd: cmdPool[rng.Intn(len(cmdPool))], Pty: true})
		case 6:
			steps = append(steps, step{Op: "exec", Cmd: "", Pty: rng.Chance(0.7)})
		case 7:
			steps = append(steps, step{Op: "pf-local", Unix: rng.Bool()}, step{Op: "pf-data"})
		case 8:
			steps = append(steps, step{Op: "pf-remote", Unix: true})
		case 9:
			steps = append(steps, step{Op: "issue"})
		case 10:
			steps = append(steps, step{Op: "tube", TubeT: byte(rng.Pick(7, 99, 3, 0))})
		case 11, 12:
			steps = append(steps, step{Op: "clock", Dur: []time.Duration{15 * time.Minute, 45 * time.Minute, 90 * time.Minute}[rng.Intn(3)]})
		case 13:
			steps = append(steps, step{Op: "double", Cmd: gs[rng.Intn(len(gs))].Cmd})
		}
	}
	return gs, steps
}

// runGrantHistory stores the grants, logs the delegate (identity 0) in as
// alice and plays the steps; afterwards it retries the login (grants consumed)
// and tries another key.
func runGrantHistory(r *vh.Runner, c *vh.Case, rng *vh.Rand, gs []grant, steps []step, sample bool) {
	setClock(baseTime)
	mode := []string{"shared", "open"}[rng.Intn(2)]
	x := newWorld(true, mode)
	defer x.teardown()
	ids := []*fix.Identity{fix.SelfSigned(), fix.SelfSigned()}
	principal := fix.SelfSigned()
	x.ks.AddKey(principal.Key.Public)
	for _, u := range []string{"alice", "bob"} {
		x.fs.set(akPath(u), fileSpec{Kind: "file", Data: []byte(principal.Key.Public.String() + "\n")})
	}
	var trace []string
	tr := func(f string, a ...any) { trace = append(trace, fmt.Sprintf(f, a...)) }
	detail := func(extra map[string]any) map[string]any {
		extra["grants"], extra["steps"], extra["trace"], extra["mode"] = gs, steps, trace, mode
		return extra
	}
	led := ledger{}
	// principal sessions per user for grants that travel over the wire
	pcl := map[string]*rawClient{}
	for _, g := range gs {
		in := g.intent(ids)
		if g.Via == "wire" {
			p := pcl[g.User]
			if p == nil {
				var err error
				p, err = x.connect(principal)
				if err != nil {
					c.Inconclusive("principal handshake: " + err.Error())
					return
				}
				if ok, d := p.login(g.User); !ok {
					c.Inconclusive("principal login: " + d)
					return
				}
				pcl[g.User] = p
			}
			ans, reason := p.agc(in)
			tr("grant over the wire user=%s key=D%d type=%d cmd=%q start=%v exp=%v -> %s %s", g.User, g.Key, g.Type, g.Cmd, g.Start, g.Exp, ans, reason)
			if ans == "confirmed" {
				led[lk(g.User, g.Key)] = append(led[lk(g.User, g.Key)], g)
				r.Count("grants_issued_over_the_wire", 1)
			}
			continue
		}
		err := x.hs.AddAuthGrant(&in)
		tr("grant user=%s key=D%d type=%d cmd=%q start=%v exp=%v -> %v", g.User, g.Key, g.Type, g.Cmd, g.Start, g.Exp, err)
		if err == nil {
			led[lk(g.User, g.Key)] = append(led[lk(g.User, g.Key)], g)
		}
	}
	for _, p := range pcl {
		p.close()
	}
	r.Count("grants_stored", int64(len(gs)))

	cl, err := x.connect(ids[0])
	if err != nil {
		tr("delegate handshake refused: %v", err)
		if len(led[lk("alice", 0)]) > 0 || len(led[lk("bob", 0)]) > 0 {
			r.Count("delegate_with_grants_refused_at_handshake", 1)
		}
		return
	}
	ok, d := cl.login("alice")
	tr("delegate D0 logs in as alice -> %s", d)
	mine := led[lk("alice", 0)]
	r.Count("evaluations", 1)
	if ok && len(mine) == 0 {
		c.Violate("C07:delegate-admitted-without-any-grant", detail(map[string]any{}))
		return
	}
	if !ok {
		r.Count("delegate_logins_refused", 1)
		return
	}
	r.Count("delegate_sessions", 1)
	delete(led, lk("alice", 0))
	if left := x.hs.VerifGrants()["alice"][ids[0].Key.Public]; len(left) != 0 {
		c.Violate("C07:grants-remain-in-server-map-after-login", detail(map[string]any{"left": len(left)}))
		return
	}

	var acts []action
	judge := func(a action) bool {
		acts = append(acts, a)
		r.Count("actions_started", 1)
		r.Count("actions_started_"+a.Kind, 1)
		if !matchAll(acts, mine) {
			c.Violate("C07:"+a.Kind+"-started-without-usable-grant:"+why(a, acts[:len(acts)-1], mine), detail(map[string]any{"action": a, "started_before": acts[:len(acts)-1]}))
			return false
		}
		return true
	}
	for si, st := range steps {
		if c.Violated() || cl.dead.Load() {
			break
		}
		r.Count("evaluations", 1)
		r.Count("requests", 1)
		switch st.Op {
		case "clock":
			setClock(now().Add(st.Dur))
			tr("#%d clock +%v -> %v", si, st.Dur, now().Sub(baseTime))
		case "exec":
			n0, l0 := started.n(), loginLines()
			ans, msg := cl.exec(st.Cmd, st.Pty)
			recs := started.since(n0)
			startedNow := ans == "conf" || len(recs) > 0 || loginLines() > l0
			tr("#%d exec cmd=%q pty=%v -> %s %q (process starts recorded: %d)", si, st.Cmd, st.Pty, ans, msg, len(recs))
			if startedNow {
				if !judge(action{"exec", st.Cmd, st.Pty, now()}) {
					return
				}
			} else {
				r.Count("requests_refused", 1)
			}
			if st.Pty && ans == "conf" {
				// the server ends the session when the shell exits
				cl.close()
			}
		case "double":
			n0 := started.n()
			var wg sync.WaitGroup
			res := make([]string, 2)
			for k := 0; k < 2; k++ {
				wg.Add(1)
				go func() { defer wg.Done(); res[k], _ = cl.exec(st.Cmd, false) }()
			}
			wg.Wait()
			nconf := 0
			for _, a := range res {
				if a == "conf" {
					nconf++
				}
			}
			nstart := max(nconf, len(started.since(n0)))
			tr("#%d two concurrent exec cmd=%q -> %v (process starts recorded: %d)", si, st.Cmd, res, len(started.since(n0)))
			for k := 0; k < nstart; k++ {
				if !judge(action{"exec", st.Cmd, false, now()}) {
					return
				}
			}
			r.Count("concurrent_request_pairs", 1)
		case "double-pf":
			// two remote forwards (and an execution request) asked for at the same moment
			var wg sync.WaitGroup
			res := make([]string, 2)
			n0 := started.n()
			for k := 0; k < 2; k++ {
				wg.Add(1)
				go func() {
					defer wg.Done()
					res[k] = cl.pfControl(portforwarding.PfRemote, unixAddr(fmt.Sprintf("%s/r%d.sock", scratch, probeSeq.Add(1))))
				}()
			}
			execAns := ""
			if st.Cmd != "" {
				wg.Add(1)
				go func() { defer wg.Done(); execAns, _ = cl.exec(st.Cmd, false) }()
			}
			wg.Wait()
			tr("#%d two concurrent remote forwards -> %v; exec %q -> %q", si, res, st.Cmd, execAns)
			for _, a := range res {
				if a == "success" {
					if !judge(action{"pf-remote", "", false, now()}) {
						return
					}
				}
			}
			if st.Cmd != "" && (execAns == "conf" || len(started.since(n0)) > 0) {
				if !judge(action{"exec", st.Cmd, false, now()}) {
					return
				}
			}
			r.Count("concurrent_request_pairs", 1)
		case "pf-local":
			p := newProbe(st.Unix)
			if p == nil {
				continue
			}
			ans := cl.pfControl(portforwarding.PfLocal, p.addr)
			time.Sleep(10 * time.Millisecond)
			dials := p.accepted.Load()
			tr("#%d local forward to %v -> %s (server dialled %d times)", si, p.addr.Network(), ans, dials)
			if ans == "success" || dials > 0 {
				if !judge(action{"pf-local", "", false, now()}) {
					p.close()
					return
				}
				// data tubes belong to the forward that was agreed
				if si+1 < len(steps) && steps[si+1].Op == "pf-data" {
					cl.pfData()
				}
			} else {
				r.Count("requests_refused", 1)
				// a refused forward leaves nothing behind: a data tube opened
				// now reaches nobody
				cl.pfData()
				time.Sleep(30 * time.Millisecond)
				if after := p.accepted.Load(); after > dials {
					tr("#%d data tube after the refused forward: the server dialled the refused address", si)
					if !judge(action{"pf-local", "", false, now()}) {
						p.close()
						return
					}
				}
			}
			p.close()
		case "pf-data":
			// handled with the forward it follows; alone it must reach nothing
		case "pf-remote":
			path := fmt.Sprintf("%s/r%d.sock", scratch, probeSeq.Add(1))
			ans := cl.pfControl(portforwarding.PfRemote, unixAddr(path))
			listening := false
			for k := 0; k < 20 && ans == "success" && !listening; k++ {
				if cn, err := dialUnix(path); err == nil {
					cn.Close()
					listening = true
				} else {
					time.Sleep(5 * time.Millisecond)
				}
			}
			tr("#%d remote forward -> %s (server listening: %v)", si, ans, listening)
			if ans == "success" || listening {
				if !judge(action{"pf-remote", "", false, now()}) {
					return
				}
			} else {
				r.Count("requests_refused", 1)
			}
		case "issue":
			g := grant{User: "alice", Key: 0, Type: byte(authgrants.Shell), Start: -time.Hour, Exp: 10 * time.Hour}
			before := len(x.hs.VerifGrants()["alice"][ids[0].Key.Public])
			ans, reason := cl.agc(g.intent(ids))
			after := len(x.hs.VerifGrants()["alice"][ids[0].Key.Public])
			tr("#%d delegate submits an intent for itself -> %s %q (stored grants %d -> %d)", si, ans, reason, before, after)
			if ans == "confirmed" || after > before {
				if !judge(action{"issue-grant", "", false, now()}) {
					return
				}
			} else {
				r.Count("requests_refused", 1)
			}
		case "tube":
			cl.otherTube(st.TubeT)
			tr("#%d tube of type %d opened and closed", si, st.TubeT)
		}
	}
	cl.close()
	if c.Violated() {
		return
	}
	// the grants are gone: the same key cannot come back, another key never could
	r.Count("evaluations", 2)
	if again, err := x.connect(ids[0]); err == nil {
		ok, d := again.login("alice")
		tr("D0 logs in as alice again -> %s", d)
		if ok && len(led[lk("alice", 0)]) == 0 {
			c.Violate("C07:login-again-after-grants-were-consumed", detail(map[string]any{}))
			return
		}
		again.close()
	} else {
		tr("D0 connects again: handshake refused")
		r.Count("second_connection_refused_at_handshake", 1)
	}
	if other, err := x.connect(ids[1]); err == nil {
		ok, d := other.login("alice")
		tr("D1 logs in as alice -> %s", d)
		if ok && len(led[lk("alice", 1)]) == 0 {
			c.Violate("C07:grant-used-by-a-key-it-does-not-name", detail(map[string]any{}))
			return
		}
		other.close()
	}
	if sample {
		r.Sample(map[string]any{"kind": "grant-history", "grants": gs, "steps": steps, "trace": trace})
	}
}
