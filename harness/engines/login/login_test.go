// Engine login: C05 (user login only by a listed key or a live grant, failing
// closed) and C07 (a delegate session can do only what its grants allow, once,
// in time). The real hopserver.HopServer runs over a real transport.Server on
// a simulated network in real time; the harness is a raw client (transport
// client + tube muxer) that speaks the user-auth, exec, port-forwarding and
// authgrant tube protocols byte by byte. Everything the server would touch on
// a host (passwd lookup, file system, clock, process start, login(1)) is
// replaced at the boundaries the repository itself provides (pkg/thunks, the
// server's fs.FS, PATH).
package login

import (
	"encoding/base64"
	"errors"
	"fmt"
	"io"
	"io/fs"
	"os"
	"os/exec"
	"path/filepath"
	"strings"
	"sync"
	"sync/atomic"
	"testing"
	"time"

	"github.com/AstromechZA/etcpwdparse"

	"hop.computer/hop/config"
	"hop.computer/hop/hopserver"
	"hop.computer/hop/keys"
	"hop.computer/hop/pkg/thunks"

	"verif/harness/vh"
)

func TestEngine(t *testing.T) {
	setupEnv(t)
	defer os.RemoveAll(scratch)
	vh.Main(t, map[string]func(*vh.Runner){"C05": genC05, "C07": genC07})
}

// ---------------------------------------------------------------------------
// host boundary: passwd, clock, process start, login(1)

var (
	scratch    string
	knownUsers = []string{"alice", "bob", "carol"}
	clockNS    atomic.Int64 // thunks.TimeNow in Unix nanoseconds
	started    startLog
	loginLog   string
)

// baseTime is decades after any wall clock this can run under: the target's
// intent policy compares expiry with time.Now(), the grant checks with
// thunks.TimeNow; both "expired" and "not yet effective" grants relative to
// the harness clock are in the wall clock's future.
var baseTime = time.Date(2060, 1, 1, 0, 0, 0, 0, time.UTC)

type startRec struct {
	Args []string
	At   time.Time
}

type startLog struct {
	mu   sync.Mutex
	recs []startRec
}

func (l *startLog) add(args []string) {
	l.mu.Lock()
	l.recs = append(l.recs, startRec{append([]string(nil), args...), now()})
	l.mu.Unlock()
}

func (l *startLog) n() int { l.mu.Lock(); defer l.mu.Unlock(); return len(l.recs) }

func (l *startLog) since(i int) []startRec {
	l.mu.Lock()
	defer l.mu.Unlock()
	return append([]startRec(nil), l.recs[i:]...)
}

func now() time.Time         { return time.Unix(0, clockNS.Load()).UTC() }
func setClock(t time.Time)   { clockNS.Store(t.UnixNano()) }
func homeOf(u string) string { return filepath.Join(scratch, "h", u) }

func akPath(u string) string { // as HopServer.AuthorizeKey computes it, without the leading slash
	return filepath.Join(homeOf(u), ".hop", "authorized_keys")[1:]
}

func setupEnv(t *testing.T) {
	if os.Getenv("VERIF_PROP") == "" {
		return
	}
	d, err := os.MkdirTemp("", "vl")
	if err != nil {
		t.Fatal(err)
	}
	scratch = d
	for _, u := range knownUsers {
		os.MkdirAll(homeOf(u), 0o755)
	}
	// login(1) stand-in: records its arguments and exits
	bin := filepath.Join(scratch, "bin")
	os.MkdirAll(bin, 0o755)
	loginLog = filepath.Join(scratch, "login.log")
	script := "#!/bin/sh\necho \"$@\" >> '" + loginLog + "'\nsleep 0.2\nexit 0\n"
	if err := os.WriteFile(filepath.Join(bin, "login"), []byte(script), 0o755); err != nil {
		t.Fatal(err)
	}
	os.Setenv("PATH", bin+":"+os.Getenv("PATH"))
	if p, _ := exec.LookPath("login"); p != filepath.Join(bin, "login") {
		t.Fatalf("login resolves to %q", p)
	}
	setClock(baseTime)
	thunks.TimeNow = now
	uid, gid := os.Getuid(), os.Getgid()
	thunks.LookupUser = func(name string) (*etcpwdparse.EtcPasswdEntry, error) {
		for _, u := range knownUsers {
			if u == name {
				ent, err := etcpwdparse.ParsePasswdLine(fmt.Sprintf("%s:x:%d:%d:V:%s:/bin/sh", name, uid, gid, homeOf(name)))
				return &ent, err
			}
		}
		return nil, thunks.ErrUserNotFound
	}
	thunks.StartCmd = func(c *exec.Cmd) error {
		started.add(c.Args)
		c.SysProcAttr = nil
		c.Dir = ""
		return c.Start()
	}
}

func loginLines() int {
	b, _ := os.ReadFile(loginLog)
	return strings.Count(string(b), "\n")
}

// ---------------------------------------------------------------------------
// the server's file system: per-path scripted behaviour, mutable between steps

type fileSpec struct {
	Kind    string // file | missing | dir | open-error | read-error
	Data    []byte
	FailAt  int // read-error: bytes delivered before the error
	ReadMax int // >0: at most this many bytes per Read call
}

type memFS struct {
	mu        sync.Mutex
	files     map[string]fileSpec
	opens     []string
	openDelay time.Duration // a slow file system (set before use)
}

func newMemFS() *memFS { return &memFS{files: map[string]fileSpec{}} }

func (m *memFS) set(path string, s fileSpec) { m.mu.Lock(); m.files[path] = s; m.mu.Unlock() }

var errInjected = errors.New("injected I/O error")

func (m *memFS) Open(name string) (fs.File, error) {
	m.mu.Lock()
	s, ok := m.files[name]
	m.opens = append(m.opens, name)
	m.mu.Unlock()
	if m.openDelay > 0 {
		time.Sleep(m.openDelay)
	}
	if !ok || s.Kind == "missing" {
		return nil, &fs.PathError{Op: "open", Path: name, Err: fs.ErrNotExist}
	}
	switch s.Kind {
	case "open-error":
		return nil, &fs.PathError{Op: "open", Path: name, Err: errInjected}
	case "dir":
		return &memFile{name: name, dir: true}, nil
	}
	return &memFile{name: name, spec: s}, nil
}

type memFile struct {
	name string
	spec fileSpec
	off  int
	dir  bool
}

// Stat reports the size and, like fstest.MapFS, a zero modification time.
func (f *memFile) Stat() (fs.FileInfo, error) {
	return memInfo{name: f.name, size: int64(len(f.spec.Data)), dir: f.dir}, nil
}

type memInfo struct {
	name string
	size int64
	dir  bool
}

func (i memInfo) Name() string { return filepath.Base(i.name) }
func (i memInfo) Size() int64  { return i.size }
func (i memInfo) Mode() fs.FileMode {
	if i.dir {
		return fs.ModeDir | 0o755
	}
	return 0o600
}
func (i memInfo) ModTime() time.Time { return time.Time{} }
func (i memInfo) IsDir() bool        { return i.dir }
func (i memInfo) Sys() any           { return nil }
func (f *memFile) Close() error      { return nil }
func (f *memFile) Read(p []byte) (int, error) {
	if f.dir {
		return 0, &fs.PathError{Op: "read", Path: f.name, Err: errors.New("is a directory")}
	}
	limit := len(f.spec.Data)
	if f.spec.Kind == "read-error" && f.spec.FailAt < limit {
		limit = f.spec.FailAt
	}
	if f.off >= limit {
		if f.spec.Kind == "read-error" {
			return 0, errInjected
		}
		return 0, io.EOF
	}
	n := limit - f.off
	if n > len(p) {
		n = len(p)
	}
	if f.spec.ReadMax > 0 && n > f.spec.ReadMax {
		n = f.spec.ReadMax
	}
	copy(p, f.spec.Data[f.off:f.off+n])
	f.off += n
	return n, nil
}

// ---------------------------------------------------------------------------
// reference: which keys are well-formed entries of a file (written from the
// statement: one entry per line, surrounding white space ignored, the exact
// text prefix, standard padded base64 of exactly 32 bytes)

func refListed(data []byte, k keys.DHPublicKey) bool {
	for _, line := range strings.Split(string(data), "\n") {
		line = strings.TrimSpace(line)
		if !strings.HasPrefix(line, keys.DHPublicKeyPrefix) {
			continue
		}
		rest := strings.ReplaceAll(line[len(keys.DHPublicKeyPrefix):], "\r", "")
		b, err := base64.StdEncoding.Strict().DecodeString(rest)
		if err != nil {
			// the decoder used by a liberal reader ignores trailing-bit strictness
			b, err = base64.StdEncoding.DecodeString(rest)
			if err != nil {
				continue
			}
		}
		if len(b) == 32 && [32]byte(b) == [32]byte(k) {
			return true
		}
	}
	return false
}

// refListedSpec applies refListed to what the file system delivers and to the
// whole content (a key completely read before an I/O error is still an entry).
func refListedSpec(s fileSpec, k keys.DHPublicKey) bool {
	switch s.Kind {
	case "file":
		return refListed(s.Data, k)
	case "read-error":
		cut := min(s.FailAt, len(s.Data))
		return refListed(s.Data, k) || refListed(s.Data[:cut], k)
	}
	return false
}

// ---------------------------------------------------------------------------
// authorized_keys grammar

type lineKind struct {
	name      string
	malformed bool // a reader that parses strictly rejects the file at this line
	gen       func(rng *vh.Rand, target, other keys.DHPublicKey) string
}

func b64(k keys.DHPublicKey) string { return base64.StdEncoding.EncodeToString(k[:]) }

var lineKinds = []lineKind{
	{"target", false, func(r *vh.Rand, t, o keys.DHPublicKey) string { return t.String() }},
	{"other", false, func(r *vh.Rand, t, o keys.DHPublicKey) string { return o.String() }},
	{"random-key", false, func(r *vh.Rand, t, o keys.DHPublicKey) string {
		var k keys.DHPublicKey
		r.Fill(k[:])
		return k.String()
	}},
	{"near-target", false, func(r *vh.Rand, t, o keys.DHPublicKey) string {
		k := t
		switch r.Intn(3) {
		case 0:
			k[r.Intn(32)] ^= 1 << r.Intn(8)
		case 1:
			r.Fill(k[16:]) // same first half
		default:
			r.Fill(k[:16]) // same second half
		}
		if k == t {
			k[31] ^= 1
		}
		return k.String()
	}},
	{"target-padded-ws", false, func(r *vh.Rand, t, o keys.DHPublicKey) string { return " \t" + t.String() + "\t  " }},
	{"blank", false, func(r *vh.Rand, t, o keys.DHPublicKey) string { return "" }},
	{"whitespace", false, func(r *vh.Rand, t, o keys.DHPublicKey) string { return "  \t " }},
	{"comment", true, func(r *vh.Rand, t, o keys.DHPublicKey) string { return "# a comment" }},
	{"comment-with-target", true, func(r *vh.Rand, t, o keys.DHPublicKey) string { return "# " + t.String() }},
	{"garbage", true, func(r *vh.Rand, t, o keys.DHPublicKey) string {
		return strings.Map(func(c rune) rune {
			if c == '\n' {
				return 'n'
			}
			return c
		}, string(r.Bytes(1+r.Intn(60))))
	}},
	{"truncated-base64", true, func(r *vh.Rand, t, o keys.DHPublicKey) string {
		s := t.String()
		return s[:len(s)-1-r.Intn(len(b64(t))-1)]
	}},
	{"wrong-prefix", true, func(r *vh.Rand, t, o keys.DHPublicKey) string {
		p := []string{"hop-dh-v2-", "HOP-DH-V1-", "hop-dh-v1", "ssh-ed25519 ", "hop-sign-v1-", "-hop-dh-v1-"}
		return p[r.Intn(len(p))] + b64(t)
	}},
	{"short-key-31", true, func(r *vh.Rand, t, o keys.DHPublicKey) string {
		return keys.DHPublicKeyPrefix + base64.StdEncoding.EncodeToString(t[:31])
	}},
	{"long-key-33", true, func(r *vh.Rand, t, o keys.DHPublicKey) string {
		return keys.DHPublicKeyPrefix + base64.StdEncoding.EncodeToString(append(append([]byte(nil), t[:]...), 0))
	}},
	{"target-with-trailing-comment", true, func(r *vh.Rand, t, o keys.DHPublicKey) string { return t.String() + " user@host" }},
	{"target-with-leading-option", true, func(r *vh.Rand, t, o keys.DHPublicKey) string { return "restrict " + t.String() }},
	{"target-urlsafe-base64", true, func(r *vh.Rand, t, o keys.DHPublicKey) string {
		// only differs from the standard alphabet when the key has 62/63 sextets
		return keys.DHPublicKeyPrefix + base64.URLEncoding.EncodeToString(t[:])
	}},
	{"target-unpadded-base64", true, func(r *vh.Rand, t, o keys.DHPublicKey) string {
		return keys.DHPublicKeyPrefix + base64.RawStdEncoding.EncodeToString(t[:])
	}},
	{"two-near-misses", false, func(r *vh.Rand, t, o keys.DHPublicKey) string {
		// two listed keys that each differ from the target in one bit, at different places
		a, b := t, t
		i := r.Intn(32)
		j := (i + 1 + r.Intn(31)) % 32
		a[i] ^= 1 << r.Intn(8)
		b[j] ^= 1 << r.Intn(8)
		return a.String() + "\n" + b.String()
	}},
	{"target-after-a-long-run-of-blanks", true, func(r *vh.Rand, t, o keys.DHPublicKey) string {
		// one (malformed) line: another key, blanks up to and beyond a 4096-byte buffer, the target
		return o.String() + strings.Repeat(" ", r.Pick(4000, 4043, 4044, 4096, 4100, 9000)) + t.String()
	}},
	{"target-bare-base64", true, func(r *vh.Rand, t, o keys.DHPublicKey) string { return b64(t) }},
	{"target-prefix-twice", true, func(r *vh.Rand, t, o keys.DHPublicKey) string {
		return keys.DHPublicKeyPrefix + keys.DHPublicKeyPrefix + b64(t)
	}},
	{"target-prefix-only-dash", true, func(r *vh.Rand, t, o keys.DHPublicKey) string { return "-" + b64(t) }},
	{"target-hex", true, func(r *vh.Rand, t, o keys.DHPublicKey) string { return keys.DHPublicKeyPrefix + vh.Hex(t[:]) }},
	{"huge-line", true, func(r *vh.Rand, t, o keys.DHPublicKey) string { return strings.Repeat("A", 70_000) }},
	{"nul-bytes", true, func(r *vh.Rand, t, o keys.DHPublicKey) string { return "\x00\x00\x00" }},
	{"two-keys-one-line", true, func(r *vh.Rand, t, o keys.DHPublicKey) string { return o.String() + " " + t.String() }},
}

type genFile struct {
	Spec      fileSpec
	Kinds     []string
	Malformed string // first malformed construct, "" if every line is well formed
	Sep       string
}

// genKeysFile builds a file from the grammar. listTarget forces / forbids a
// well-formed entry for the target key.
func genKeysFile(rng *vh.Rand, target, other keys.DHPublicKey, mode string) genFile {
	var g genFile
	n := rng.Pick(0, 1, 1, 2, 3, 5, 9, 24)
	g.Sep = []string{"\n", "\n", "\r\n"}[rng.Intn(3)]
	var lines []string
	for i := 0; i < n; i++ {
		var lk lineKind
		for {
			lk = lineKinds[rng.Intn(len(lineKinds))]
			if mode == "wellformed-only" && lk.malformed {
				continue
			}
			if mode == "no-target" && (lk.name == "target" || lk.name == "target-padded-ws") {
				continue
			}
			if lk.name == "huge-line" && !rng.Chance(0.2) {
				continue
			}
			break
		}
		lines = append(lines, lk.gen(rng, target, other))
		g.Kinds = append(g.Kinds, lk.name)
		if lk.malformed && g.Malformed == "" {
			g.Malformed = lk.name
		}
	}
	data := strings.Join(lines, g.Sep)
	if n > 0 && rng.Chance(0.7) {
		data += g.Sep
	}
	g.Spec = fileSpec{Kind: "file", Data: []byte(data)}
	if rng.Chance(0.15) {
		g.Spec.ReadMax = rng.Pick(1, 7, 64)
	}
	return g
}

// fileLevel wraps a generated file into a file-level condition.
func fileLevel(rng *vh.Rand, g genFile) (genFile, string) {
	switch rng.Intn(12) {
	case 0:
		g.Spec.Kind = "missing"
		return g, "missing-file"
	case 1:
		g.Spec.Kind = "dir"
		return g, "directory-in-place-of-file"
	case 2:
		g.Spec.Kind = "open-error"
		return g, "open-error"
	case 3, 4:
		g.Spec.Kind = "read-error"
		g.Spec.FailAt = rng.Intn(len(g.Spec.Data) + 1)
		return g, "read-error"
	case 5:
		g.Spec.Data = nil
		g.Kinds = nil
		g.Malformed = ""
		return g, "empty-file"
	}
	if g.Malformed != "" {
		return g, "malformed:" + g.Malformed
	}
	return g, "wellformed"
}

// ---------------------------------------------------------------------------
// C05

func genC05(r *vh.Runner) {
	genC05Func(r)
	genC05Rewrites(r)
	// simultaneous logins with one key: a single live grant admits one of them
	concurrentConsume(r, "C05:one-live-grant-admits-several-simultaneous-logins", r.Pick(24, 480))
	genC05E2E(r)
}

// concurrentAuthorize: several look-ups for one user's file at the same
// moment, some with a listed key and some with keys that are not listed (the
// file system is slow to open, so that they overlap): each caller gets the
// verdict for its own key.
func concurrentAuthorize(r *vh.Runner, batches int) {
	for b := 0; b < batches; b++ {
		r.Case(fmt.Sprintf("concurrent-authorize/%d", b), map[string]any{"batch": b}, func(c *vh.Case) {
			srv, err := hopserver.NewHopServerExt(nil, &config.ServerConfig{}, nil)
			if err != nil {
				c.Inconclusive(err.Error())
				return
			}
			rng := vh.NewRand(r.Seed, "c05-conc", b)
			for round := 0; round < 150 && !c.Violated(); round++ {
				var listed keys.DHPublicKey
				rng.Fill(listed[:])
				fsys := newMemFS()
				fsys.openDelay = time.Duration(rng.Pick(0, 20, 100, 400)) * time.Microsecond
				user := knownUsers[rng.Intn(len(knownUsers))]
				fsys.set(akPath(user), fileSpec{Kind: "file", Data: []byte(listed.String() + "\n")})
				srv.VerifSetFS(fsys)
				workers := 2 + rng.Intn(4)
				ks := make([]keys.DHPublicKey, workers)
				for w := range ks {
					if w%2 == 0 {
						ks[w] = listed
					} else {
						rng.Fill(ks[w][:])
					}
				}
				errs := make([]error, workers)
				var start, done sync.WaitGroup
				start.Add(1)
				for w := 0; w < workers; w++ {
					done.Add(1)
					go func() {
						defer done.Done()
						start.Wait()
						if w%2 == 1 {
							time.Sleep(time.Duration(w) * fsys.openDelay / 4)
						}
						errs[w] = srv.AuthorizeKey(user, ks[w])
					}()
				}
				start.Done()
				done.Wait()
				r.Count("evaluations", int64(workers))
				r.Count("concurrent_authorize_calls", int64(workers))
				for w, e := range errs {
					if w%2 == 1 && e == nil {
						c.Violate("C05:authorize-key-succeeds:key-not-listed:concurrent-lookups", map[string]any{"round": round, "workers": workers, "caller": w, "open_delay": fsys.openDelay.String()})
						break
					}
					if w%2 == 0 && e != nil {
						r.Count("listed_key_refused_under_concurrent_lookups_not_judged", 1) // the statement only says when access may be given
					}
				}
			}
			r.Nontrivial(fmt.Sprintf("concurrent-authorize|%d", b))
		})
	}
}

func genC05Func(r *vh.Runner) {
	concurrentAuthorize(r, r.Pick(6, 200))
	srv, err := hopserver.NewHopServerExt(nil, &config.ServerConfig{}, nil)
	if err != nil {
		panic(err)
	}
	n := r.Pick(400, 40000)
	const per = 50
	for i := 0; i < n; i++ {
		r.Case(fmt.Sprintf("authorize-key/%d", i), map[string]any{"i": i}, func(c *vh.Case) {
			for j := 0; j < per && !c.Violated(); j++ {
				rng := vh.NewRand(r.Seed, "c05-func", i, j)
				var target, other keys.DHPublicKey
				rng.Fill(target[:])
				rng.Fill(other[:])
				mode := []string{"any", "any", "no-target", "wellformed-only"}[rng.Intn(4)]
				g, class := fileLevel(rng, genKeysFile(rng, target, other, mode))
				user := knownUsers[rng.Intn(len(knownUsers))]
				fsys := newMemFS()
				fsys.set(akPath(user), g.Spec)
				// the key is well formed in somebody else's file: must not matter
				otherUser := knownUsers[(rng.Intn(2)+1+indexOf(user))%len(knownUsers)]
				if rng.Chance(0.5) {
					fsys.set(akPath(otherUser), fileSpec{Kind: "file", Data: []byte(target.String() + "\n")})
				}
				askUser := user
				if rng.Chance(0.08) {
					askUser = []string{"mallory", "", "alice/../bob", "root", "Alice", "alice "}[rng.Intn(6)]
				}
				srv.VerifSetFS(fsys)
				err := srv.AuthorizeKey(askUser, target)
				listed := askUser == user && refListedSpec(g.Spec, target)
				r.Count("evaluations", 1)
				r.Count("authorize_key_calls", 1)
				switch {
				case err == nil && !listed:
					why := class
					if askUser != user {
						why = "other-or-unknown-user"
					}
					c.Violate("C05:authorize-key-accepts-unlisted-key:"+why, map[string]any{
						"user": askUser, "file_of": user, "file_kind": g.Spec.Kind, "line_kinds": g.Kinds, "sep": g.Sep,
						"data_hex": vh.HexCap(g.Spec.Data, 600), "fail_at": g.Spec.FailAt, "key": target.String(),
						"also_listed_for": otherUser,
					})
				case err == nil && listed:
					r.Count("accepted_listed", 1)
					r.Nontrivial("acc|" + class + "|" + strings.Join(g.Kinds, ","))
				case err != nil && listed:
					r.Count("refused_although_listed_fail_closed", 1)
				default:
					r.Count("refused_unlisted", 1)
					r.Nontrivial("ref|" + class + "|" + strings.Join(g.Kinds, ","))
				}
				r.Count("class_"+strings.SplitN(class, ":", 2)[0], 1)
				if i == 0 && j < 3 {
					r.Sample(map[string]any{"kind": "authorize-key", "class": class, "line_kinds": g.Kinds, "listed": listed, "accepted": err == nil})
				}
			}
		})
	}
}

// genC05Rewrites: the same server object and user across several versions of
// the file (the key revoked by a same-length rewrite, the file removed, emptied,
// replaced by a directory, restored): every decision follows the file as it is
// at login time.
func genC05Rewrites(r *vh.Runner) {
	srv, err := hopserver.NewHopServerExt(nil, &config.ServerConfig{}, nil)
	if err != nil {
		panic(err)
	}
	n := r.Pick(60, 6000)
	for i := 0; i < n; i++ {
		r.Case(fmt.Sprintf("rewrites/%d", i), map[string]any{"i": i}, func(c *vh.Case) {
			rng := vh.NewRand(r.Seed, "c05-rewrites", i)
			var k, k2 keys.DHPublicKey
			rng.Fill(k[:])
			rng.Fill(k2[:])
			user := knownUsers[rng.Intn(len(knownUsers))]
			fsys := newMemFS()
			srv.VerifSetFS(fsys)
			var trace []string
			for v := 0; v < 2+rng.Intn(5) && !c.Violated(); v++ {
				var spec fileSpec
				var what string
				switch rng.Intn(9) {
				case 0, 1:
					spec, what = fileSpec{Kind: "file", Data: []byte(k.String() + "\n")}, "lists-key"
				case 2, 3:
					spec, what = fileSpec{Kind: "file", Data: []byte(k2.String() + "\n")}, "lists-other-key-same-length"
				case 4:
					g := []byte(k.String() + "\n")
					for j := range g[:len(g)-1] {
						g[j] = "ghijklmnop"[rng.Intn(10)]
					}
					spec, what = fileSpec{Kind: "file", Data: g}, "garbage-same-length"
				case 5:
					spec, what = fileSpec{Kind: "missing"}, "missing"
				case 6:
					spec, what = fileSpec{Kind: "file"}, "empty"
				case 7:
					spec, what = fileSpec{Kind: "file", Data: []byte(k2.String() + "\n" + k.String() + "\n")}, "lists-both"
				default:
					spec, what = fileSpec{Kind: "dir"}, "directory"
				}
				fsys.set(akPath(user), spec)
				err := srv.AuthorizeKey(user, k)
				listed := refListedSpec(spec, k)
				trace = append(trace, fmt.Sprintf("v%d %s -> accepted=%v", v, what, err == nil))
				r.Count("evaluations", 1)
				r.Count("authorize_key_calls", 1)
				if err == nil && !listed {
					c.Violate("C05:authorize-key-accepts-unlisted-key:after-rewrite:"+what, map[string]any{"user": user, "versions": trace})
				}
				if err == nil {
					r.Count("accepted_listed", 1)
				}
			}
			r.Nontrivial("rewrites|" + strings.Join(trace, ";"))
		})
	}
}

func indexOf(u string) int {
	for i, k := range knownUsers {
		if k == u {
			return i
		}
	}
	return 0
}
