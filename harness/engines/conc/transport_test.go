package conc

import (
	"bytes"
	"errors"
	"fmt"
	"github.com/sirupsen/logrus"
	"io"
	"net"
	"os"
	"runtime"
	"strings"
	"sync"
	"syscall"
	"time"

	"hop.computer/hop/certs"
	"hop.computer/hop/transport"

	"verif/harness/bub"
	"verif/harness/fix"
	"verif/harness/perturb"
	"verif/harness/simnet"
	"verif/harness/vh"
)

type tcall struct {
	actor, op string
	start     time.Time
}

type ttracker struct {
	mu    sync.Mutex
	open  map[int]*tcall
	next  int
	count map[string]int
}

func (t *ttracker) begin(actor, op string) int {
	t.mu.Lock()
	defer t.mu.Unlock()
	t.next++
	t.open[t.next] = &tcall{actor, op, time.Now()}
	t.count[op]++
	return t.next
}
func (t *ttracker) end(id int) { t.mu.Lock(); delete(t.open, id); t.mu.Unlock() }
func (t *ttracker) outstanding() []string {
	t.mu.Lock()
	defer t.mu.Unlock()
	var out []string
	for _, c := range t.open {
		out = append(out, c.op+" by "+c.actor)
	}
	sortS(out)
	return out
}

type top struct {
	Op  string `json:"op"`
	N   int    `json:"n,omitempty"`
	Dms int    `json:"d_ms,omitempty"`
}

func okReadErr(err error) bool {
	return err == nil || errors.Is(err, io.EOF) || errors.Is(err, os.ErrDeadlineExceeded) || errors.Is(err, transport.ErrBufOverflow)
}

// transportProgram: concurrent programs over a Client, its server-side Handle
// and the Server.
func transportProgram(r *vh.Runner, c *vh.Case, i int) {
	rng := vh.NewRand(r.Seed, "c17-tp", i)
	peer := []string{"live", "live", "live", "silent", "black-hole", "write-error"}[rng.Intn(6)]
	hidden := rng.Chance(0.4)
	hsTimeout := time.Duration(rng.Pick(500, 2000)) * time.Millisecond
	pt := perturb.Install(r.Seed^uint64(i)*131, false, rng.Pick(0, 30, 60))
	defer pt.Remove()
	cv := &transport.VerifyConfig{}
	w := fix.NewWorld(false, cv, nil)
	cv.Store = w.PKI.Store()
	id := w.PKI.Issue(certs.RawStringName("client"))
	cl, cep := w.NewClient(id, hidden, hsTimeout)
	caddr := cep.Source()
	switch peer {
	case "silent":
		w.Net.SetPolicy(func(d *simnet.Datagram) []simnet.Delivery {
			if d.Dst.String() == caddr.String() {
				return nil
			}
			return []simnet.Delivery{{Data: d.Data, Src: d.Src, Dst: d.Dst}}
		})
	case "black-hole":
		w.Net.SetPolicy(func(d *simnet.Datagram) []simnet.Delivery { return nil })
	case "write-error":
		// the client's socket starts refusing writes at some point (before,
		// during or after the handshake); what the server sends still arrives
		at := time.Duration(rng.Pick(0, 1, 5, 50, 400)) * time.Millisecond
		time.AfterFunc(at, func() { cep.FailWrites(&net.OpError{Op: "write", Net: "udp", Err: syscall.ECONNREFUSED}) })
	}
	tr := &ttracker{open: map[int]*tcall{}, count: map[string]int{}}
	desc := map[string]any{"peer": peer, "hidden": hidden, "hs_timeout": hsTimeout.String()}
	violate := func(sig string, d map[string]any) {
		for k, v := range desc {
			d[k] = v
		}
		c.Violate(sig, d)
	}
	var closeResults []string
	var crmu sync.Mutex
	var hsResults []string
	// server side: accept and echo (live mode)
	var handle *transport.Handle
	hready := make(chan struct{})
	go func() {
		defer close(hready)
		id := tr.begin("server", "Server.AcceptTimeout")
		h, err := w.Server.AcceptTimeout(20 * time.Second)
		tr.end(id)
		if err == nil {
			handle = h
		}
	}()
	// client goroutines
	ng := 2 + rng.Intn(4)
	alpha := []string{"handshake", "write", "writemsg", "setdeadline", "setreaddeadline", "close", "sleep", "write"}
	progs := make([][]top, ng)
	for g := range progs {
		k := 2 + rng.Intn(6)
		for j := 0; j < k; j++ {
			o := top{Op: alpha[rng.Intn(len(alpha))]}
			switch o.Op {
			case "write", "writemsg":
				o.N = rng.Pick(0, 1, 100, 5000)
			case "setdeadline", "setreaddeadline":
				o.Dms = rng.Pick(-10, 0, 5, 100)
			case "sleep":
				o.Dms = rng.Pick(1, 20, 300)
			case "close":
				if j < k/2 {
					o.Op = "handshake"
				}
			}
			progs[g] = append(progs[g], o)
		}
	}
	// exactly one reader goroutine on the client (several readers would park on
	// Handle.readLock across a timer, which a bubble cannot distinguish from a stall)
	progs[0] = append([]top{{Op: "readmsg"}, {Op: "readmsg"}, {Op: "readmsg"}}, progs[0]...)
	desc["programs"] = progs
	var wg sync.WaitGroup
	for g := 0; g < ng; g++ {
		wg.Add(1)
		go func(g int) {
			defer wg.Done()
			actor := fmt.Sprintf("client.g%d", g)
			buf := make([]byte, 70000)
			for _, o := range progs[g] {
				switch o.Op {
				case "handshake":
					id := tr.begin(actor, "Client.Handshake")
					err := cl.Handshake()
					tr.end(id)
					crmu.Lock()
					hsResults = append(hsResults, fmt.Sprint(err))
					crmu.Unlock()
				case "readmsg":
					id := tr.begin(actor, "Client.ReadMsg")
					_, err := cl.ReadMsg(buf)
					tr.end(id)
					if peer == "live" && !okReadErr(err) {
						violate("C17:read-returns-wrong-kind-of-error:Client.ReadMsg", map[string]any{"err": fmt.Sprint(err)})
						return
					}
				case "write":
					id := tr.begin(actor, "Client.Write")
					cl.Write(make([]byte, o.N))
					tr.end(id)
				case "writemsg":
					id := tr.begin(actor, "Client.WriteMsg")
					cl.WriteMsg(make([]byte, o.N))
					tr.end(id)
				case "setdeadline", "setreaddeadline":
					var t time.Time
					if o.Dms != 0 {
						t = time.Now().Add(time.Duration(o.Dms) * time.Millisecond)
					}
					id := tr.begin(actor, "Client.Set*Deadline")
					if o.Op == "setdeadline" {
						cl.SetDeadline(t)
					} else {
						cl.SetReadDeadline(t)
					}
					tr.end(id)
				case "close":
					id := tr.begin(actor, "Client.Close")
					err := cl.Close()
					tr.end(id)
					crmu.Lock()
					closeResults = append(closeResults, fmt.Sprint(err))
					crmu.Unlock()
				case "sleep":
					time.Sleep(time.Duration(o.Dms) * time.Millisecond)
				}
				if c.Violated() {
					return
				}
			}
		}(g)
	}
	// server-side handle users (live mode): one reader, one writer, then close
	var hwg sync.WaitGroup
	if peer == "live" {
		hwg.Add(1)
		go func() {
			defer hwg.Done()
			<-hready
			if handle == nil {
				return
			}
			var iw sync.WaitGroup
			iw.Add(2)
			go func() {
				defer iw.Done()
				buf := make([]byte, 70000)
				for k := 0; k < 4; k++ {
					handle.SetReadDeadline(time.Now().Add(time.Duration(rng.Pick(5, 50, 500)) * time.Millisecond))
					id := tr.begin("server.reader", "Handle.ReadMsg")
					_, err := handle.ReadMsg(buf)
					tr.end(id)
					if !okReadErr(err) {
						violate("C17:read-returns-wrong-kind-of-error:Handle.ReadMsg", map[string]any{"err": fmt.Sprint(err)})
						return
					}
				}
			}()
			go func() {
				defer iw.Done()
				for k := 0; k < 4; k++ {
					id := tr.begin("server.writer", "Handle.WriteMsg")
					handle.WriteMsg([]byte("from-server"))
					tr.end(id)
					time.Sleep(time.Duration(rng.Pick(1, 10)) * time.Millisecond)
				}
			}()
			if rng.Bool() {
				time.Sleep(time.Duration(rng.Pick(1, 30, 200)) * time.Millisecond)
				id := tr.begin("server", "Handle.Close")
				handle.Close()
				tr.end(id)
			}
			iw.Wait()
		}()
	}
	// everything programmed must end; then the harness closes both sides and
	// every remaining call must return
	progDone := bub.Go(func() { wg.Wait(); hwg.Wait() })
	bub.Within(progDone, hsTimeout+30*time.Second)
	var finalClose []string
	fc := bub.Go(func() {
		for k := 0; k < 2; k++ {
			id := tr.begin("harness", "Client.Close")
			err := cl.Close()
			tr.end(id)
			finalClose = append(finalClose, fmt.Sprint(err))
		}
	})
	var srvClose [3]string
	sc := bub.Go(func() {
		var swg sync.WaitGroup
		for k := range srvClose {
			swg.Add(1)
			go func(k int) {
				defer swg.Done()
				id := tr.begin("harness", "Server.Close")
				srvClose[k] = fmt.Sprint(w.Server.Close())
				tr.end(id)
			}(k)
		}
		swg.Wait()
	})
	okAll := bub.Within(fc, 30*time.Second) && bub.Within(sc, 30*time.Second) && bub.Within(progDone, 30*time.Second) && bub.Within(hready, 30*time.Second)
	r.Count("evaluations", 1)
	r.Count("transport_programs", 1)
	r.Count("peer:"+peer, 1)
	tr.mu.Lock()
	for op, k := range tr.count {
		r.Count("calls:"+op, int64(k))
	}
	tr.mu.Unlock()
	r.Nontrivial("tp|" + pt.Signature())
	if c.Violated() {
		return
	}
	if !okAll {
		out := tr.outstanding()
		ops := map[string]bool{}
		for _, o := range out {
			ops[strings.SplitN(o, " by ", 2)[0]] = true
		}
		var names []string
		for o := range ops {
			names = append(names, o)
		}
		sortS(names)
		violate("C17:transport-call-never-returns:"+strings.Join(names, "+")+":"+peer, map[string]any{"outstanding": out})
		return
	}
	// Close reports the same result to every caller
	crmu.Lock()
	all := append(append([]string(nil), closeResults...), finalClose...)
	hs := append([]string(nil), hsResults...)
	crmu.Unlock()
	for _, x := range all {
		if x != all[0] {
			violate("C17:close-results-differ-between-callers", map[string]any{"results": all})
			return
		}
	}
	for _, x := range srvClose {
		if x != srvClose[0] {
			violate("C17:close-results-differ-between-callers:Server", map[string]any{"results": srvClose})
			return
		}
	}
	_ = hs
	if i < 2 {
		r.Sample(map[string]any{"kind": "transport-program", "peer": peer, "hidden": hidden, "programs": progs, "interleaving_signature": pt.Signature()})
	}
}

// handshakeTimeout: against a peer that never answers, Handshake must return
// a time-out error by HSTimeout (+ slack), in both modes; concurrent callers
// get the same result; and data queued before Close is returned before EOF.
func handshakeTimeout(r *vh.Runner, c *vh.Case, i int) {
	rng := vh.NewRand(r.Seed, "c17-hs", i)
	hidden := i%2 == 1
	cv := &transport.VerifyConfig{}
	w := fix.NewWorld(false, cv, nil)
	cv.Store = w.PKI.Store()
	defer w.Server.Close()
	id := w.PKI.Issue(certs.RawStringName("client"))
	mode := "discoverable"
	if hidden {
		mode = "hidden"
	}
	if i%4 < 2 {
		// silent peer
		hsTimeout := time.Duration(rng.Pick(100, 1000, 3000)) * time.Millisecond
		cl, _ := w.NewClient(id, hidden, hsTimeout)
		dropAfter := rng.Intn(2) // which server reply goes missing (discoverable: 0 the hello, 1 the auth)
		n := 0
		w.Net.SetPolicy(func(d *simnet.Datagram) []simnet.Delivery {
			if d.Src.String() == w.SrvAddr.String() {
				n++
				if n > dropAfter || hidden {
					return nil
				}
			}
			return []simnet.Delivery{{Data: d.Data, Src: d.Src, Dst: d.Dst}}
		})
		start := time.Now()
		// three callers from the start, three that arrive when the handshake
		// has just failed (or is failing) and never waited for it
		var errs [6]error
		var wg sync.WaitGroup
		for k := range errs {
			wg.Add(1)
			late := time.Duration(0)
			if k >= 3 {
				late = hsTimeout + time.Duration(rng.Pick(0, 0, 1, 1000, 1000000))
			}
			go func(k int) {
				defer wg.Done()
				if late > 0 {
					time.Sleep(late)
				}
				errs[k] = cl.Handshake()
			}(k)
		}
		done := bub.Go(wg.Wait)
		returned := bub.Within(done, 3*hsTimeout+20*time.Second)
		took := time.Since(start)
		r.Count("evaluations", 1)
		r.Count("silent_peer_handshakes:"+mode, 1)
		r.Nontrivial(fmt.Sprintf("hs|%d", i))
		d := map[string]any{"mode": mode, "hs_timeout": hsTimeout.String(), "took_virtual": took.String(), "server_replies_delivered": dropAfter}
		if !returned {
			cl.Close()
			<-done
			c.Violate("C17:handshake-ignores-HSTimeout:"+mode, d)
			return
		}
		defer cl.Close()
		if errs[0] == nil {
			c.Inconclusive("handshake succeeded against a silent peer?")
			return
		}
		if !errors.Is(errs[0], os.ErrDeadlineExceeded) {
			d["err"] = errs[0].Error()
			c.Violate("C17:handshake-timeout-returns-wrong-kind-of-error:"+mode, d)
			return
		}
		for _, e := range errs {
			if fmt.Sprint(e) != fmt.Sprint(errs[0]) {
				d["errors"] = fmt.Sprint(errs)
				c.Violate("C17:concurrent-handshake-callers-get-different-results:"+mode, d)
				return
			}
		}
		return
	}
	// drain after close
	cl, _ := w.NewClient(id, hidden, 3*time.Second)
	if err := cl.Handshake(); err != nil {
		c.Inconclusive("handshake failed: " + err.Error())
		return
	}
	h, err := w.Server.AcceptTimeout(2 * time.Second)
	if err != nil {
		c.Inconclusive("accept failed")
		return
	}
	k := 1 + rng.Intn(20)
	side := "client"
	var msgs [][]byte
	for j := 0; j < k; j++ {
		msgs = append(msgs, []byte(fmt.Sprintf("queued-%d-%d", i, j)))
	}
	buf := make([]byte, 1000)
	check := func(read func([]byte) (int, error), what string) {
		for j := 0; j < k; j++ {
			n, err := read(buf)
			if err != nil || !bytes.Equal(buf[:n], msgs[j]) {
				c.Violate("C17:data-queued-before-close-not-returned:"+what, map[string]any{"mode": mode, "queued": k, "got_before_error": j, "err": fmt.Sprint(err)})
				return
			}
		}
		if _, err := read(buf); !errors.Is(err, io.EOF) {
			c.Violate("C17:read-after-drain-is-not-EOF:"+what, map[string]any{"mode": mode, "err": fmt.Sprint(err)})
		}
	}
	if i%8 < 4 {
		for _, m := range msgs {
			h.WriteMsg(m)
		}
		bub.Settle(50 * time.Millisecond)
		cl.Close()
		check(cl.ReadMsg, "Client")
	} else {
		side = "handle"
		for _, m := range msgs {
			cl.WriteMsg(m)
		}
		bub.Settle(50 * time.Millisecond)
		h.Close()
		check(h.ReadMsg, "Handle")
		cl.Close()
	}
	r.Count("evaluations", 1)
	r.Count("drain_after_close:"+side, 1)
	r.Nontrivial(fmt.Sprintf("drain|%d", i))
}

// closeAtHandshakeEnd: Close is called while a handshake against a live peer
// is in its last steps (after its final read, around the moment it publishes
// the session handle; the perturbation sleeps there). Whatever the order, once
// Close has returned every later call on the client returns at once with
// end-of-stream, and Handshake and Close agree on what happened.
func closeAtHandshakeEnd(r *vh.Runner, c *vh.Case, i int) {
	rng := vh.NewRand(r.Seed, "c17-che", i)
	hidden := rng.Chance(0.4)
	pt := perturb.Install(r.Seed^uint64(i)*977, false, rng.Pick(60, 100, 100))
	defer pt.Remove()
	cv := &transport.VerifyConfig{}
	w := fix.NewWorld(false, cv, nil)
	cv.Store = w.PKI.Store()
	defer w.Server.Close()
	id := w.PKI.Issue(certs.RawStringName("client"))
	cl, _ := w.NewClient(id, hidden, 2*time.Second)
	mode := "discoverable"
	if hidden {
		mode = "hidden"
	}
	var hsErr, clErr error
	var wg sync.WaitGroup
	wg.Add(2)
	go func() { defer wg.Done(); hsErr = cl.Handshake() }()
	delay := time.Duration(rng.Intn(4000)) * time.Microsecond
	go func() { defer wg.Done(); time.Sleep(delay); clErr = cl.Close() }()
	done := bub.Go(wg.Wait)
	if !bub.Within(done, 30*time.Second) {
		c.Violate("C17:transport-call-never-returns:Client.Handshake+Client.Close:"+mode, map[string]any{"close_after": delay.String()})
		return
	}
	r.Count("evaluations", 1)
	r.Count("close_at_handshake_end:"+mode, 1)
	d := map[string]any{"mode": mode, "close_after": delay.String(), "handshake_result": fmt.Sprint(hsErr), "close_result": fmt.Sprint(clErr), "perturbation": pt.Signature()}
	// after Close returned: reads and writes end at once
	type res struct {
		op  string
		err error
	}
	out := make(chan res, 3)
	buf := make([]byte, 2000)
	go func() { _, err := cl.ReadMsg(buf); out <- res{"Client.ReadMsg", err} }()
	go func() { out <- res{"Client.WriteMsg", cl.WriteMsg([]byte("after close"))} }()
	go func() { out <- res{"Client.Close", cl.Close()} }()
	for k := 0; k < 3; k++ {
		select {
		case x := <-out:
			if x.op == "Client.ReadMsg" && !errors.Is(x.err, io.EOF) {
				d["err"] = fmt.Sprint(x.err)
				c.Violate("C17:read-after-close-is-not-EOF:Client:after-close-at-handshake-end", d)
				return
			}
			if x.op == "Client.WriteMsg" && x.err == nil {
				c.Violate("C17:write-after-close-succeeds:Client:after-close-at-handshake-end", d)
				return
			}
		case <-time.After(20 * time.Second):
			c.Violate("C17:call-after-close-never-returns:after-close-at-handshake-end:"+mode, d)
			return
		}
	}
	if hsErr == nil {
		r.Count("handshake_won", 1)
	} else {
		r.Count("close_won", 1)
	}
	r.Nontrivial(fmt.Sprintf("che|%d|%v", i, hsErr == nil))
}

// serverCloseDuringHandshakes: several clients are in the middle of their
// handshakes (some just finishing on the server) when Server.Close is called;
// Accept callers are waiting. Close returns, every Accept returns (a handle or
// end-of-stream), every client call returns, nothing panics.
func serverCloseDuringHandshakes(r *vh.Runner, c *vh.Case, i int) {
	rng := vh.NewRand(r.Seed, "c17-scdh", i)
	pt := perturb.Install(r.Seed^uint64(i)*1409, false, rng.Pick(60, 100))
	defer pt.Remove()
	cv := &transport.VerifyConfig{}
	w := fix.NewWorld(false, cv, nil)
	cv.Store = w.PKI.Store()
	id := w.PKI.Issue(certs.RawStringName("client"))
	nc := 2 + rng.Intn(5)
	var wg sync.WaitGroup
	var clients []*transport.Client
	for k := 0; k < nc; k++ {
		cl, _ := w.NewClient(id, rng.Chance(0.3), 2*time.Second)
		clients = append(clients, cl)
		wg.Add(1)
		delay := time.Duration(rng.Intn(3000)) * time.Microsecond
		go func() {
			defer wg.Done()
			time.Sleep(delay)
			cl.Handshake()
		}()
	}
	accepted := 0
	var amu sync.Mutex
	for k := 0; k < 2; k++ {
		wg.Add(1)
		go func() {
			defer wg.Done()
			for {
				_, err := w.Server.AcceptTimeout(30 * time.Second)
				if err != nil {
					return
				}
				amu.Lock()
				accepted++
				amu.Unlock()
			}
		}()
	}
	closeAt := time.Duration(rng.Intn(4000)) * time.Microsecond
	if i%3 == 0 {
		// Close is called at the very moment a worker publishes a finished
		// handshake: the server's own debug line in finishHandshake is the
		// trigger (the worker is then past its state check), and the worker
		// yields a few hundred times so that Close gets as far as it can
		closeAt = -1
		var once sync.Once
		lg := logrus.StandardLogger()
		oldLevel, oldHooks := lg.GetLevel(), lg.ReplaceHooks(make(logrus.LevelHooks))
		lg.SetLevel(logrus.DebugLevel)
		lg.AddHook(&msgHook{prefix: "server: finishing handshake", f: func() {
			once.Do(func() {
				wg.Add(1)
				go func() { defer wg.Done(); w.Server.Close() }()
				for k := 0; k < 400; k++ {
					runtime.Gosched()
				}
			})
		}})
		defer func() { lg.ReplaceHooks(oldHooks); lg.SetLevel(oldLevel) }()
	}
	wg.Add(1)
	go func() {
		defer wg.Done()
		if closeAt < 0 {
			time.Sleep(20 * time.Millisecond) // in case no handshake got that far
		} else {
			time.Sleep(closeAt)
		}
		w.Server.Close()
	}()
	done := bub.Go(wg.Wait)
	r.Count("evaluations", 1)
	r.Count("server_close_during_handshakes", 1)
	if !bub.Within(done, 60*time.Second) {
		c.Violate("C17:transport-call-never-returns:Server.Close-during-handshakes", map[string]any{"clients": nc, "close_after": closeAt.String(), "perturbation": pt.Signature()})
	}
	for _, cl := range clients {
		cl.Close()
	}
	amu.Lock()
	r.Count("handles_accepted_before_close", int64(accepted))
	amu.Unlock()
	r.Nontrivial(fmt.Sprintf("scdh|%d", i))
}

// msgHook runs f when a log line with the given prefix is emitted.
type msgHook struct {
	prefix string
	f      func()
}

func (h *msgHook) Levels() []logrus.Level { return logrus.AllLevels }
func (h *msgHook) Fire(e *logrus.Entry) error {
	if strings.HasPrefix(e.Message, h.prefix) {
		h.f()
	}
	return nil
}

// acceptOverflowRun (real time: the failure of interest is a goroutine taking a
// mutex it already holds, which stops a bubble's clock instead of showing):
// more handshakes complete than the accept queue holds while nobody accepts;
// the server keeps serving, Accept hands out what was queued, Close returns.
func acceptOverflowRun(r *vh.Runner, c *vh.Case, i int) {
	rng := vh.NewRand(r.Seed, "c17-overflow", i)
	cv := &transport.VerifyConfig{}
	limit := 1 + rng.Intn(3)
	w := fix.NewWorld(false, cv, func(sc *transport.ServerConfig) { sc.MaxPendingConnections = limit })
	cv.Store = w.PKI.Store()
	id := w.PKI.Issue(certs.RawStringName("client"))
	n := limit + 1 + rng.Intn(4)
	var clients []*transport.Client
	completed := 0
	for k := 0; k < n; k++ {
		cl, _ := w.NewClient(id, rng.Chance(0.3), 2*time.Second)
		clients = append(clients, cl)
		if cl.Handshake() == nil {
			completed++
		}
	}
	time.Sleep(30 * time.Millisecond)
	detail := map[string]any{"accept_queue": limit, "handshakes": n, "completed_at_clients": completed}
	r.Count("evaluations", 1)
	r.Count("accept_queue_overflows", 1)
	r.Nontrivial(fmt.Sprintf("overflow|%d", i))
	bounded := func(name string, d time.Duration, f func()) bool {
		done := make(chan struct{})
		go func() { f(); close(done) }()
		select {
		case <-done:
			return true
		case <-time.After(d):
			same, dump := vh.StuckIn(3*time.Second, "transport.(*Server)")
			if !same {
				c.Inconclusive("real-time overflow case slow but still moving: " + name)
				return false
			}
			detail["goroutine_dump"] = dump
			c.Violate("C17:transport-call-never-returns:"+name+":after-accept-queue-overflow", detail)
			return false
		}
	}
	accepted := 0
	ok := bounded("Server.AcceptTimeout", 10*time.Second, func() {
		for {
			if _, err := w.Server.AcceptTimeout(200 * time.Millisecond); err != nil {
				return
			}
			accepted++
		}
	})
	if ok {
		detail["accepted"] = accepted
		ok = bounded("Server.Close", 12*time.Second, func() { w.Server.Close() })
	} else {
		go w.Server.Close()
	}
	for _, cl := range clients {
		go cl.Close()
	}
}

// socketClosedByOwnerRun: the owner of the server's socket closes it before
// (or while) Server.Close runs, so that the close of the socket inside
// Server.Close reports an error. Every Close caller, Serve, a blocked Accept
// and a blocked handle reader still return.
func socketClosedByOwnerRun(r *vh.Runner, c *vh.Case, i int) {
	rng := vh.NewRand(r.Seed, "c17-ownerclose", i)
	cv := &transport.VerifyConfig{}
	w := fix.NewWorld(false, cv, nil)
	cv.Store = w.PKI.Store()
	id := w.PKI.Issue(certs.RawStringName("client"))
	cl, _ := w.NewClient(id, rng.Chance(0.3), 2*time.Second)
	defer cl.Close()
	var h *transport.Handle
	if cl.Handshake() == nil {
		h, _ = w.Server.AcceptTimeout(2 * time.Second)
	}
	tr := &ttracker{open: map[int]*tcall{}, count: map[string]int{}}
	var wg sync.WaitGroup
	spawn := func(actor, op string, f func()) {
		wg.Add(1)
		go func() {
			defer wg.Done()
			id := tr.begin(actor, op)
			f()
			tr.end(id)
		}()
	}
	spawn("acceptor", "Server.AcceptTimeout", func() { w.Server.AcceptTimeout(time.Hour) })
	if h != nil {
		spawn("reader", "Handle.ReadMsg", func() { h.ReadMsg(make([]byte, 2000)) })
	}
	bub.Settle(10 * time.Millisecond)
	ownerFirst := rng.Bool()
	if ownerFirst {
		w.SrvEP.Close()
	}
	var results [3]string
	for k := range results {
		spawn(fmt.Sprintf("closer%d", k), "Server.Close", func() { results[k] = fmt.Sprint(w.Server.Close()) })
	}
	if !ownerFirst {
		w.SrvEP.Close()
	}
	ok := bub.Within(bub.Go(wg.Wait), 60*time.Second)
	r.Count("evaluations", 1)
	r.Count("server_closes_after_the_socket_was_closed_by_its_owner", 1)
	r.Nontrivial(fmt.Sprintf("ownerclose|%d", i))
	if !ok {
		out := tr.outstanding()
		ops := map[string]bool{}
		for _, o := range out {
			ops[strings.SplitN(o, " by ", 2)[0]] = true
		}
		var names []string
		for o := range ops {
			names = append(names, o)
		}
		sortS(names)
		c.Violate("C17:transport-call-never-returns:"+strings.Join(names, "+")+":socket-closed-by-its-owner", map[string]any{"outstanding": out, "owner_closed_first": ownerFirst, "close_results": results})
		if h != nil {
			h.Close()
		}
		return
	}
	for _, x := range results {
		if x != results[0] {
			c.Violate("C17:close-results-differ-between-callers:Server", map[string]any{"results": results, "owner_closed_first": ownerFirst})
			return
		}
	}
}

// socketWriteErrorRun (real time: the failure of interest is a lock that is
// kept, on which later callers queue): the socket of one side refuses a write
// (once, or from some point on); the failed call returns, and so does every
// later Write/WriteMsg/Close on that handle or client and the Close of the
// server.
func socketWriteErrorRun(r *vh.Runner, c *vh.Case, i int) {
	rng := vh.NewRand(r.Seed, "c17-sockerr", i)
	cv := &transport.VerifyConfig{}
	w := fix.NewWorld(false, cv, nil)
	cv.Store = w.PKI.Store()
	id := w.PKI.Issue(certs.RawStringName("client"))
	cl, cep := w.NewClient(id, rng.Chance(0.3), 2*time.Second)
	if err := cl.Handshake(); err != nil {
		c.Inconclusive("handshake: " + err.Error())
		go w.Server.Close()
		return
	}
	h, err := w.Server.AcceptTimeout(2 * time.Second)
	if err != nil {
		c.Inconclusive("accept: " + err.Error())
		go w.Server.Close()
		return
	}
	side := []string{"server-handle", "client"}[i%2]
	transient := rng.Bool()
	ep := w.SrvEP
	var wr interface {
		WriteMsg([]byte) error
		Write([]byte) (int, error)
		Close() error
	} = h
	if side == "client" {
		ep, wr = cep, cl
	}
	detail := map[string]any{"side": side, "transient_error": transient}
	r.Count("evaluations", 1)
	r.Count("socket_write_errors:"+side, 1)
	r.Nontrivial(fmt.Sprintf("sockerr|%d", i))
	bounded := func(name string, f func()) bool {
		done := make(chan struct{})
		go func() { f(); close(done) }()
		select {
		case <-done:
			return true
		case <-time.After(8 * time.Second):
			same, dump := vh.StuckIn(3*time.Second, "hop/transport.")
			if !same {
				c.Inconclusive("real-time socket-error case slow but still moving: " + name)
				return false
			}
			detail["goroutine_dump"] = dump
			c.Violate("C17:transport-call-never-returns:"+name+":after-socket-write-error:"+side, detail)
			return false
		}
	}
	wr.WriteMsg([]byte("before"))
	ep.FailWrites(&net.OpError{Op: "write", Net: "udp", Err: syscall.ENOBUFS})
	ok := bounded("WriteMsg", func() { detail["failed_write"] = fmt.Sprint(wr.WriteMsg(rng.Bytes(1 + rng.Intn(300)))) })
	if transient {
		ep.FailWrites(nil)
	}
	ok = ok && bounded("WriteMsg", func() { wr.WriteMsg([]byte("after")) }) &&
		bounded("Write", func() { wr.Write(rng.Bytes(rng.Pick(1, 100, 70000))) }) &&
		bounded("Close", func() { wr.Close() })
	if ok {
		bounded("Server.Close", func() { w.Server.Close() })
	} else {
		go w.Server.Close()
	}
	go cl.Close()
}

// roamUnderWritesRun (real time): the server handle and the client write
// without pause while the client changes its source address a dozen times; the
// race build watches the address hand-over between the receive loop and the
// writers, and every call returns.
func roamUnderWritesRun(r *vh.Runner, c *vh.Case, i int) {
	rng := vh.NewRand(r.Seed, "c17-roam", i)
	cv := &transport.VerifyConfig{}
	w := fix.NewWorld(false, cv, nil)
	cv.Store = w.PKI.Store()
	defer func() { go w.Server.Close() }()
	id := w.PKI.Issue(certs.RawStringName("client"))
	cl, cep := w.NewClient(id, rng.Chance(0.3), 2*time.Second)
	if err := cl.Handshake(); err != nil {
		c.Inconclusive("handshake: " + err.Error())
		return
	}
	defer func() { go cl.Close() }()
	h, err := w.Server.AcceptTimeout(2 * time.Second)
	if err != nil {
		c.Inconclusive("accept: " + err.Error())
		return
	}
	stop := make(chan struct{})
	var wg sync.WaitGroup
	writer := func(write func([]byte) error) {
		defer wg.Done()
		msg := make([]byte, 40)
		for k := 0; k < 3000; k++ {
			select {
			case <-stop:
				return
			default:
			}
			write(msg)
		}
	}
	reader := func(read func([]byte) (int, error), dl func(time.Time) error) {
		defer wg.Done()
		buf := make([]byte, 2000)
		for {
			select {
			case <-stop:
				return
			default:
			}
			dl(time.Now().Add(20 * time.Millisecond))
			read(buf)
		}
	}
	wg.Add(4)
	go writer(h.WriteMsg)
	go writer(cl.WriteMsg)
	go reader(h.ReadMsg, h.SetReadDeadline)
	go reader(cl.ReadMsg, cl.SetReadDeadline)
	for k := 0; k < 12; k++ {
		cep.SetSource(simnet.Addr(54000+rng.Intn(4000), 3000+rng.Intn(50000)))
		time.Sleep(time.Duration(200+rng.Intn(800)) * time.Microsecond)
	}
	close(stop)
	done := make(chan struct{})
	go func() { wg.Wait(); close(done) }()
	r.Count("evaluations", 1)
	r.Count("roams_under_writes", 12)
	r.Nontrivial(fmt.Sprintf("roam-writes|%d", i))
	select {
	case <-done:
	case <-time.After(15 * time.Second):
		c.Violate("C17:transport-call-never-returns:writers-and-readers-while-roaming", map[string]any{})
	}
}
