// Engine conc: C17 — transport connections and deadline queues are safe under
// concurrent use. (a) common.DeadlineChan histories recorded at the client
// boundary and checked for linearizability with porcupine against a small
// sequential model; these run in real time because DeadlineChan.Send keeps the
// queue mutex while it waits (a bubble would stall). (b) concurrent programs
// over transport.Client / Handle / Server in synctest bubbles. Built with the
// race detector; the driver turns race reports whose racing access lies in
// transport/ or common/ into violations.
package conc

import (
	"errors"
	"fmt"
	"io"
	"os"
	"strings"
	"sync"
	"sync/atomic"
	"testing"
	"time"

	"github.com/anishathalye/porcupine"

	"hop.computer/hop/common"

	"verif/harness/perturb"
	"verif/harness/vh"
)

func TestEngine(t *testing.T) {
	vh.Main(t, map[string]func(*vh.Runner){"C17": genC17})
}

func genC17(r *vh.Runner) {
	nq := r.Pick(1600, 80000)
	per := 25
	for b := 0; b*per < nq; b++ {
		r.Case(fmt.Sprintf("queue/%d", b), map[string]any{"batch": b, "histories": per}, func(c *vh.Case) {
			for k := 0; k < per && !c.Violated(); k++ {
				queueHistory(r, c, b*per+k)
			}
		})
	}
	// directed: a reader woken by its deadline at about the moment a producer
	// queues an item and closes
	nw := r.Pick(40, 2000)
	for b := 0; b < nw; b++ {
		r.Case(fmt.Sprintf("queue-timeout-meets-close/%d", b), map[string]any{"batch": b, "histories": per}, func(c *vh.Case) {
			for k := 0; k < per && !c.Violated(); k++ {
				h := 10_000_000 + b*per + k
				rng := vh.NewRand(r.Seed, "c17-tmc", h)
				dl := rng.Pick(1, 1, 2, 3)
				at := dl*1000 + rng.Pick(-300, -100, -30, 0, 30, 60, 100, 150, 250, 400)
				progs := [][]qop{
					{{Op: "setdeadline", Dms: dl}, {Op: "recv"}, {Op: "recv"}},
					{{Op: "sleepus", Dms: at}, {Op: "send"}, {Op: "close"}},
				}
				if rng.Bool() {
					progs = append(progs, []qop{{Op: "recv"}})
				}
				if k%3 == 2 {
					// the deadline is re-armed (or cleared) at about the moment it expires
					progs = [][]qop{
						{{Op: "setdeadline", Dms: dl}, {Op: "recv"}},
						{{Op: "sleepus", Dms: at}, {Op: "setdeadline", Dms: []int{20, 0, 3}[rng.Intn(3)]}, {Op: "send"}},
						{{Op: "setdeadline", Dms: dl}, {Op: "send"}, {Op: "send"}, {Op: "send"}, {Op: "send"}},
					}
				}
				queueHistoryWith(r, c, h, progs)
			}
		})
	}
	nt := r.Pick(300, 10000)
	for i := 0; i < nt; i++ {
		r.Case(fmt.Sprintf("transport/%d", i), map[string]any{"program": i}, func(c *vh.Case) {
			c.Bubble(func() { transportProgram(r, c, i) })
		})
	}
	nc := r.Pick(96, 3000)
	for i := 0; i < nc; i++ {
		r.Case(fmt.Sprintf("close-at-handshake-end/%d", i), map[string]any{"case": i}, func(c *vh.Case) {
			c.Bubble(func() { closeAtHandshakeEnd(r, c, i) })
		})
	}
	ns := r.Pick(96, 3000)
	for i := 0; i < ns; i++ {
		r.Case(fmt.Sprintf("server-close-during-handshakes/%d", i), map[string]any{"case": i}, func(c *vh.Case) {
			c.Bubble(func() { serverCloseDuringHandshakes(r, c, i) })
		})
	}
	nr := r.Pick(12, 300)
	for i := 0; i < nr; i++ {
		r.Case(fmt.Sprintf("roam-under-writes/%d", i), map[string]any{"case": i}, func(c *vh.Case) { roamUnderWritesRun(r, c, i) })
	}
	noc := r.Pick(12, 400)
	for i := 0; i < noc; i++ {
		r.Case(fmt.Sprintf("socket-closed-by-owner/%d", i), map[string]any{"case": i}, func(c *vh.Case) {
			c.Bubble(func() { socketClosedByOwnerRun(r, c, i) })
		})
	}
	nse := r.Pick(12, 300)
	for i := 0; i < nse; i++ {
		r.Case(fmt.Sprintf("socket-write-error/%d", i), map[string]any{"case": i}, func(c *vh.Case) { socketWriteErrorRun(r, c, i) })
	}
	no := r.Pick(12, 300)
	for i := 0; i < no; i++ {
		r.Case(fmt.Sprintf("accept-queue-overflow/%d", i), map[string]any{"case": i}, func(c *vh.Case) { acceptOverflowRun(r, c, i) })
	}
	nh := r.Pick(24, 400)
	for i := 0; i < nh; i++ {
		r.Case(fmt.Sprintf("hs-timeout/%d", i), map[string]any{"case": i}, func(c *vh.Case) {
			c.Bubble(func() { handshakeTimeout(r, c, i) })
		})
	}
}

// ---------------------------------------------------------------------------
// (a) DeadlineChan

type qin struct {
	Op  string // send recv close cancel setdeadline
	Val int
}

type qout struct {
	Val int
	Err string // "", eof, timeout, cancelled, other
}

func errClass(err error) string {
	switch {
	case err == nil:
		return ""
	case errors.Is(err, io.EOF):
		return "eof"
	case errors.Is(err, os.ErrDeadlineExceeded):
		return "timeout"
	case err.Error() == "cancelled-by-harness":
		return "cancelled"
	}
	return "other:" + err.Error()
}

var errCancelled = errors.New("cancelled-by-harness")

// Sequential model for porcupine. It encodes what the property states about a
// single queue: items come out at most once and in the order they went in,
// nothing comes out that was not put in, end-of-stream results need a close,
// the first Close reports nil and later ones io.EOF. Two clauses that involve
// operations *concurrent with* Close are deliberately not forced into the
// linearization (a Send that overlaps Close may land on either side of it
// without the property caring) and are checked separately in real-time order:
// "data queued before close is returned before end-of-stream" and "no Send
// succeeds after Close has returned" (see closeClauses).
func qmodel() porcupine.Model {
	type st struct {
		closed bool
		items  string // comma-terminated list "1,5,9,"
	}
	return porcupine.Model{
		Init: func() any { return st{} },
		Step: func(state, input, output any) (bool, any) {
			s := state.(st)
			in, out := input.(qin), output.(qout)
			switch in.Op {
			case "send":
				switch out.Err {
				case "":
					return true, st{s.closed, s.items + fmt.Sprint(in.Val) + ","}
				case "eof":
					return s.closed, s
				default: // time-out / cancel: no effect
					return true, s
				}
			case "recv":
				switch out.Err {
				case "":
					head := fmt.Sprint(out.Val) + ","
					if !strings.HasPrefix(s.items, head) {
						return false, s
					}
					return true, st{s.closed, s.items[len(head):]}
				case "eof":
					return s.closed, s
				default:
					return true, s
				}
			case "close":
				if out.Err == "" {
					if s.closed {
						return false, s
					}
					return true, st{true, s.items}
				}
				return s.closed, s // io.EOF: already closed
			default: // cancel, setdeadline: nil while open, EOF once closed; no effect
				if out.Err == "eof" {
					return s.closed, s
				}
				return true, s
			}
		},
		DescribeOperation: func(i, o any) string { return fmt.Sprintf("%v -> %v", i, o) },
	}
}

// closeClauses checks, in real-time order, the two close-related clauses of
// the property on a complete history. It returns a signature suffix and a
// description, or "".
func closeClauses(h []porcupine.Operation) (string, string) {
	firstCloseCall, nilCloseReturn := int64(-1), int64(-1)
	for _, op := range h {
		if op.Input.(qin).Op == "close" {
			if firstCloseCall < 0 || op.Call < firstCloseCall {
				firstCloseCall = op.Call
			}
			if op.Output.(qout).Err == "" {
				nilCloseReturn = op.Return
			}
		}
	}
	if firstCloseCall < 0 {
		return "", ""
	}
	recvCall := map[int]int64{}
	for _, op := range h {
		if op.Input.(qin).Op == "recv" && op.Output.(qout).Err == "" {
			recvCall[op.Output.(qout).Val] = op.Call
		}
	}
	for _, op := range h {
		in, out := op.Input.(qin), op.Output.(qout)
		// no Send succeeds after the (nil) Close has returned
		if in.Op == "send" && out.Err == "" && nilCloseReturn >= 0 && op.Call > nilCloseReturn {
			return "send-succeeds-after-close-returned", fmt.Sprintf("send(%d) called at %d after Close returned at %d", in.Val, op.Call, nilCloseReturn)
		}
		if in.Op != "send" || out.Err != "" || op.Return >= firstCloseCall {
			continue
		}
		// v was queued before any Close was called: every end-of-stream read
		// must come after (or concurrently with) the read that took v
		for _, e := range h {
			if e.Input.(qin).Op == "recv" && e.Output.(qout).Err == "eof" {
				if rc, ok := recvCall[in.Val]; !ok || rc > e.Return {
					return "recv-eof-before-data-queued-before-close", fmt.Sprintf("item %d was queued (send returned at %d) before Close was called (%d), yet a Recv returned EOF at %d before it was taken", in.Val, op.Return, firstCloseCall, e.Return)
				}
			}
		}
	}
	return "", ""
}

type qop struct {
	Op  string `json:"op"`
	Dms int    `json:"d_ms,omitempty"`
}

func queueHistory(r *vh.Runner, c *vh.Case, h int) {
	queueHistoryWith(r, c, h, nil)
}

// queueHistoryWith runs preset programs when given (directed families), else generated ones.
func queueHistoryWith(r *vh.Runner, c *vh.Case, h int, preset [][]qop) {
	rng := vh.NewRand(r.Seed, "c17-queue", h)
	capacity := rng.Intn(4)
	ng := 2 + rng.Intn(5)
	nops := 5 + rng.Intn(36)
	if preset != nil {
		ng, nops = len(preset), 0
		capacity = 1 + rng.Intn(3)
	}
	// programs
	progs := make([][]qop, ng)
	if preset != nil {
		copy(progs, preset)
	}
	opsAlpha := []string{"send", "send", "send", "recv", "recv", "recv", "setdeadline", "cancel", "close"}
	closes := 0
	for k := 0; k < nops; k++ {
		g := rng.Intn(ng)
		o := qop{Op: opsAlpha[rng.Intn(len(opsAlpha))]}
		if o.Op == "close" {
			closes++
			if closes > 2 || k < nops/3 {
				o.Op = "recv"
			}
		}
		if o.Op == "setdeadline" {
			o.Dms = rng.Pick(-5, 0, 1, 3, 10, 20)
		}
		progs[g] = append(progs[g], o)
	}
	q := common.NewDeadlineChan[int](capacity)
	strength := rng.Pick(0, 30, 60)
	if preset != nil {
		strength = 100
	}
	pt := perturb.Install(r.Seed^uint64(h)*31, true, strength)
	defer pt.Remove()
	var clock atomic.Int64
	var mu sync.Mutex
	var hist []porcupine.Operation
	type pending struct {
		in    qin
		g     int
		call  int64
		start time.Time
	}
	open := map[int]*pending{}
	nextID := 0
	nextVal := 0
	do := func(g int, in qin, f func() qout) {
		mu.Lock()
		id := nextID
		nextID++
		p := &pending{in: in, g: g, call: clock.Add(1), start: time.Now()}
		open[id] = p
		mu.Unlock()
		out := f()
		ret := clock.Add(1)
		mu.Lock()
		delete(open, id)
		hist = append(hist, porcupine.Operation{ClientId: g, Input: in, Call: p.call, Output: out, Return: ret})
		mu.Unlock()
	}
	var wg sync.WaitGroup
	for g := 0; g < ng; g++ {
		wg.Add(1)
		go func(g int) {
			defer wg.Done()
			for _, o := range progs[g] {
				switch o.Op {
				case "send":
					mu.Lock()
					nextVal++
					v := nextVal
					mu.Unlock()
					do(g, qin{"send", v}, func() qout { return qout{Err: errClass(q.Send(v))} })
				case "recv":
					do(g, qin{Op: "recv"}, func() qout { v, err := q.Recv(); return qout{Val: v, Err: errClass(err)} })
				case "close":
					do(g, qin{Op: "close"}, func() qout { return qout{Err: errClass(q.Close())} })
				case "sleepus":
					time.Sleep(time.Duration(o.Dms) * time.Microsecond)
				case "cancel":
					do(g, qin{Op: "cancel"}, func() qout { return qout{Err: errClass(q.Cancel(errCancelled))} })
				case "setdeadline":
					var t time.Time
					if o.Dms != 0 {
						t = time.Now().Add(time.Duration(o.Dms) * time.Millisecond)
					}
					do(g, qin{Op: "setdeadline", Val: o.Dms}, func() qout { return qout{Err: errClass(q.SetDeadline(t))} })
				}
			}
		}(g)
	}
	done := make(chan struct{})
	go func() { wg.Wait(); close(done) }()
	// programmed deadlines are <= 20 ms; blocked calls without a deadline are
	// released by the final Close that the harness issues after 150 ms
	released := false
	select {
	case <-done:
	case <-time.After(150 * time.Millisecond):
		released = true
		go do(ng, qin{Op: "close"}, func() qout { return qout{Err: errClass(q.Close())} })
		select {
		case <-done:
		case <-time.After(5 * time.Second):
		}
	}
	r.Count("evaluations", 1)
	r.Count("queue_histories", 1)
	mu.Lock()
	stillOpen := len(open)
	var hung []string
	for _, p := range open {
		hung = append(hung, fmt.Sprintf("%s(%d) by g%d", p.in.Op, p.in.Val, p.g))
	}
	hcopy := append([]porcupine.Operation(nil), hist...)
	mu.Unlock()
	desc := map[string]any{"history": h, "capacity": capacity, "goroutines": ng, "programs": progs, "released_by_harness_close": released}
	if stillOpen > 0 {
		same, dump := vh.StuckIn(3*time.Second, "common.(*DeadlineChan", "common.(*Deadline)")
		mu.Lock()
		stillOpen = len(open)
		mu.Unlock()
		if stillOpen == 0 {
			return // finished meanwhile: slow machine, not a hang
		}
		if !same {
			c.Inconclusive("queue calls outstanding but goroutines still moving")
			return
		}
		ops := map[string]bool{}
		for _, x := range hung {
			ops[strings.SplitN(x, "(", 2)[0]] = true
		}
		var names []string
		for o := range ops {
			names = append(names, o)
		}
		sortS(names)
		desc["hung_calls"], desc["goroutine_dump"] = hung, dump
		c.Violate("C17:queue-call-never-returns:"+strings.Join(names, "+"), desc)
		return
	}
	r.Count("queue_operations", int64(len(hcopy)))
	// linear-time checks with unique values: at most once, per-producer order
	seen := map[int]bool{}
	lastFrom := map[int]int{}
	producer := map[int]int{}
	for _, op := range hcopy {
		if in := op.Input.(qin); in.Op == "send" {
			producer[in.Val] = op.ClientId
		}
	}
	// order of successful receives by return time
	recvs := []porcupine.Operation{}
	for _, op := range hcopy {
		if in := op.Input.(qin); in.Op == "recv" && op.Output.(qout).Err == "" {
			recvs = append(recvs, op)
		}
	}
	for _, op := range recvs {
		v := op.Output.(qout).Val
		if seen[v] {
			desc["value"] = v
			c.Violate("C17:queue-item-taken-twice", desc)
			return
		}
		seen[v] = true
		if _, ok := producer[v]; !ok {
			desc["value"] = v
			c.Violate("C17:queue-item-never-put", desc)
			return
		}
		_ = lastFrom
	}
	if cls, what := closeClauses(hcopy); cls != "" {
		var lines []string
		for _, op := range hcopy {
			lines = append(lines, fmt.Sprintf("g%d [%d,%d] %v -> %v", op.ClientId, op.Call, op.Return, op.Input, op.Output))
		}
		desc["recorded_history"], desc["what"] = lines, what
		c.Violate("C17:queue:"+cls, desc)
		return
	}
	res, info := porcupine.CheckOperationsVerbose(qmodel(), hcopy, 20*time.Second)
	_ = info
	switch res {
	case porcupine.Illegal:
		var lines []string
		for _, op := range hcopy {
			lines = append(lines, fmt.Sprintf("g%d [%d,%d] %v -> %v", op.ClientId, op.Call, op.Return, op.Input, op.Output))
		}
		desc["recorded_history"] = lines
		c.Violate("C17:queue-history-not-linearizable:"+nonLinClass(hcopy), desc)
		return
	case porcupine.Unknown:
		c.Inconclusive("porcupine timed out")
		return
	}
	conc := 0
	for i := range hcopy {
		for j := i + 1; j < len(hcopy); j++ {
			if hcopy[i].Call <= hcopy[j].Return && hcopy[j].Call <= hcopy[i].Return {
				conc++
			}
		}
	}
	if conc > 0 {
		r.Count("queue_histories_with_concurrent_pairs", 1)
		r.Nontrivial(fmt.Sprintf("q|%d|%s", h, pt.Signature()))
	}
	if h < 2 {
		var lines []string
		for _, op := range hcopy {
			lines = append(lines, fmt.Sprintf("g%d [%d,%d] %v -> %v", op.ClientId, op.Call, op.Return, op.Input, op.Output))
		}
		r.Sample(map[string]any{"kind": "queue-history", "capacity": capacity, "goroutines": ng, "history": lines, "porcupine": string(res)})
	}
}

// nonLinClass gives a coarse discriminator for a non-linearizable history.
func nonLinClass(h []porcupine.Operation) string {
	eofRecv := false
	for _, op := range h {
		if in := op.Input.(qin); in.Op == "recv" && op.Output.(qout).Err == "eof" {
			eofRecv = true
		}
	}
	if eofRecv {
		return "with-recv-eof"
	}
	return "other"
}

func sortS(s []string) {
	for i := 1; i < len(s); i++ {
		for j := i; j > 0 && s[j] < s[j-1]; j-- {
			s[j], s[j-1] = s[j-1], s[j]
		}
	}
}
