// Engine certs: C04 — certificate verification accepts exactly the valid
// chains. A forge builds certificate forests as bytes from construction
// records (so it can emit every combination the issuing API refuses); the
// bytes are parsed with the repository's ReadFrom and verified with the real
// Store.VerifyLeaf / VerifyParent; the verdict is compared with a reference
// verifier that works on the construction records only (appendix B3).
package certs

import (
	"bytes"
	"crypto/ed25519"
	"encoding/binary"
	"fmt"
	"testing"
	"testing/synctest"
	"time"

	"golang.org/x/crypto/sha3"

	"hop.computer/hop/certs"
	"hop.computer/hop/keys"

	"verif/harness/vh"
)

func TestEngine(t *testing.T) {
	vh.Main(t, map[string]func(*vh.Runner){"C04": genC04})
}

type nameRec struct {
	Type  byte   `json:"type"`
	Label string `json:"label"`
}

// rec is the construction record of one certificate.
type rec struct {
	Idx      int       `json:"idx"`
	Type     byte      `json:"type"`
	Names    []nameRec `json:"names"`
	Issued   int64     `json:"issued"`
	Expires  int64     `json:"expires"`
	KeyID    int       `json:"key"`        // index of the key pair whose public half is in the cert
	ParentOf int       `json:"parent"`     // index of the cert named by the Parent field; -1 zero; -2 random
	SignerID int       `json:"signer_key"` // key that signed; -1 garbage signature; -2 zero signature
	Reserved uint16    `json:"reserved,omitempty"`

	raw    []byte
	fp     [32]byte
	parsed *certs.Certificate
}

type forest struct {
	keys  []ed25519.PrivateKey
	certs []*rec
}

func serialize(r *rec, f *forest, rng *vh.Rand) []byte {
	var b bytes.Buffer
	b.Write([]byte{1, r.Type, byte(r.Reserved >> 8), byte(r.Reserved)})
	var t [8]byte
	binary.BigEndian.PutUint64(t[:], uint64(r.Issued))
	b.Write(t[:])
	binary.BigEndian.PutUint64(t[:], uint64(r.Expires))
	b.Write(t[:])
	b.Write(f.keys[r.KeyID].Public().(ed25519.PublicKey))
	switch {
	case r.ParentOf >= 0:
		b.Write(f.certs[r.ParentOf].fp[:])
	case r.ParentOf == -1:
		b.Write(make([]byte, 32))
	default:
		b.Write(rng.Bytes(32))
	}
	chunk := 2
	for _, n := range r.Names {
		chunk += 3 + len(n.Label)
	}
	b.Write([]byte{byte(chunk >> 8), byte(chunk)})
	for _, n := range r.Names {
		b.Write([]byte{byte(3 + len(n.Label)), n.Type, byte(len(n.Label))})
		b.WriteString(n.Label)
	}
	tbs := b.Bytes()
	switch {
	case r.SignerID >= 0:
		b.Write(ed25519.Sign(f.keys[r.SignerID], tbs))
	case r.SignerID == -1:
		b.Write(rng.Bytes(64))
	default:
		b.Write(make([]byte, 64))
	}
	return b.Bytes()
}

const (
	tLeaf = 1
	tInt  = 2
	tRoot = 3
)

var labels = []string{"", "a", "host.example", "HOST.example", "user", "10.0.0.1", string(bytes.Repeat([]byte{'x'}, 252))}

func randNames(rng *vh.Rand) []nameRec {
	n := rng.Intn(4)
	out := []nameRec{}
	total := 2
	for i := 0; i < n; i++ {
		nr := nameRec{Type: byte(rng.Pick(0, 0, 1, 1, 2, 3, 7)), Label: labels[rng.Intn(len(labels))]}
		if total+3+len(nr.Label) > 512 {
			continue
		}
		total += 3 + len(nr.Label)
		out = append(out, nr)
	}
	return out
}

const base = int64(1_700_000_000)

// buildForest generates a forest; certificates only reference earlier ones.
func buildForest(rng *vh.Rand) *forest {
	f := &forest{}
	nk := 3 + rng.Intn(5)
	for i := 0; i < nk; i++ {
		f.keys = append(f.keys, ed25519.NewKeyFromSeed(rng.Bytes(32)))
	}
	nRoots := 1 + rng.Intn(3)
	nInts := rng.Intn(5)
	nLeaves := 1 + rng.Intn(6)
	window := func() (int64, int64) {
		switch rng.Intn(30) {
		case 0:
			return base + 500, base + 1000 // not yet valid at base
		case 1:
			return base - 1000, base - 10 // expired at base
		case 2:
			return base, base + 1 // one-second window
		case 3:
			// beyond what fits a 64-bit nanosecond count (years 2262 and later)
			return 10_413_792_000 + int64(rng.Intn(1000)), 23_036_486_400 // 2300 .. 2700: not yet valid
		case 4:
			return base - int64(rng.Intn(1000)), 11_044_944_000 + int64(rng.Intn(1000)) // valid now, until 2320
		case 5:
			return base - 1000, 9_223_372_037 + int64(rng.Pick(-1, 0, 1, 2)) // expiry right at the nanosecond limit
		default:
			return base - int64(rng.Intn(1000)), base + 10 + int64(rng.Intn(1000))
		}
	}
	add := func(r *rec) {
		r.Idx = len(f.certs)
		r.raw = serialize(r, f, rng)
		r.fp = sha3.Sum256(r.raw)
		// a parser that has just given up on a truncated or garbled
		// certificate parses the next one as if nothing had happened
		if len(r.raw) > 8 && rng.Chance(0.35) {
			bad := append([]byte(nil), r.raw[:1+rng.Intn(len(r.raw)-1)]...)
			if rng.Bool() {
				bad = append([]byte(nil), r.raw...)
				bad[rng.Intn(16)] ^= byte(1 + rng.Intn(255))
			}
			new(certs.Certificate).ReadFrom(bytes.NewReader(bad))
		}
		c := new(certs.Certificate)
		if _, err := c.ReadFrom(bytes.NewReader(r.raw)); err != nil {
			panic("forge produced unparseable certificate: " + err.Error())
		}
		r.parsed = c
		f.certs = append(f.certs, r)
	}
	pickOfType := func(t byte) int {
		var c []int
		for _, x := range f.certs {
			if x.Type == t {
				c = append(c, x.Idx)
			}
		}
		if len(c) == 0 {
			return -1
		}
		return c[rng.Intn(len(c))]
	}
	for i := 0; i < nRoots; i++ {
		is, ex := window()
		k := rng.Intn(nk)
		r := &rec{Type: tRoot, Names: randNames(rng), Issued: is, Expires: ex, KeyID: k, ParentOf: -1, SignerID: k}
		if rng.Chance(0.1) {
			r.Type = byte(rng.Pick(tLeaf, tInt, 0, 9)) // wrong type in the root slot
		}
		if rng.Chance(0.1) {
			r.SignerID = -2
		}
		add(r)
	}
	mk := func(slot byte, parentType byte) {
		is, ex := window()
		r := &rec{Type: slot, Names: randNames(rng), Issued: is, Expires: ex, KeyID: rng.Intn(nk)}
		p := pickOfType(parentType)
		switch k := rng.Intn(20); {
		case k < 14 && p >= 0: // correct link, signed by the parent's key
			r.ParentOf = p
			r.SignerID = f.certs[p].KeyID
		case k == 14 && p >= 0: // correct link, wrong signer
			r.ParentOf = p
			r.SignerID = rng.Intn(nk)
		case k == 15 && p >= 0: // correct link, garbage signature
			r.ParentOf = p
			r.SignerID = -1
		case k == 16: // link to an arbitrary earlier cert, signed by that cert's key
			r.ParentOf = rng.Intn(len(f.certs))
			r.SignerID = f.certs[r.ParentOf].KeyID
		case k == 17: // zero parent, self-signed
			r.ParentOf = -1
			r.SignerID = r.KeyID
		case k == 18: // random parent
			r.ParentOf = -2
			r.SignerID = rng.Intn(nk)
		default: // link to any cert, properly signed, but wrong type in this slot
			r.ParentOf = rng.Intn(len(f.certs))
			r.SignerID = f.certs[r.ParentOf].KeyID
			r.Type = byte(rng.Pick(tLeaf, tInt, tRoot, 0, 4))
		}
		if rng.Chance(0.05) {
			r.Reserved = uint16(rng.U64())
		}
		add(r)
	}
	for i := 0; i < nInts; i++ {
		mk(tInt, tRoot)
	}
	for i := 0; i < nLeaves; i++ {
		if rng.Chance(0.12) || nInts == 0 && rng.Chance(0.5) {
			mk(tLeaf, tRoot) // leaf directly under a root
		} else {
			mk(tLeaf, tInt)
		}
	}
	return f
}

func sigOK(child, parent *rec) bool { return child.SignerID >= 0 && child.SignerID == parent.KeyID }

// sigOK compares key *indices*; two indices could name equal keys only with
// negligible probability (independent 32-byte seeds).

func timeOK(r *rec, now time.Time) bool {
	is := time.Unix(r.Issued, 0)
	ex := time.Unix(r.Expires, 0)
	return !now.Before(is) && now.Before(ex)
}

type query struct {
	Leaf      int      `json:"leaf"`
	Store     []int    `json:"store"`
	Presented int      `json:"presented"` // -1 none
	Name      *nameRec `json:"name"`      // nil: zero name
	NowUnix   int64    `json:"now_unix"`
	NowNanos  int64    `json:"now_nanos"`
}

// reference verdict: "" if valid, else the first failing clause.
func reference(f *forest, q query) string {
	leaf := f.certs[q.Leaf]
	now := time.Unix(q.NowUnix, q.NowNanos)
	if leaf.Type != tLeaf {
		return "leaf-type"
	}
	if q.Name != nil {
		ok := false
		for _, n := range leaf.Names {
			if n.Type == q.Name.Type && n.Label == q.Name.Label {
				ok = true
			}
		}
		if !ok {
			return "name"
		}
	}
	if !timeOK(leaf, now) {
		return "leaf-time"
	}
	if leaf.ParentOf < 0 {
		return "no-intermediate"
	}
	var inter *rec
	if q.Presented >= 0 && f.certs[q.Presented].fp == f.certs[leaf.ParentOf].fp {
		inter = f.certs[q.Presented]
	} else {
		for _, s := range q.Store {
			if f.certs[s].fp == f.certs[leaf.ParentOf].fp {
				inter = f.certs[s]
			}
		}
	}
	if inter == nil {
		return "no-intermediate"
	}
	if inter.Type != tInt {
		return "intermediate-type"
	}
	if !timeOK(inter, now) {
		return "intermediate-time"
	}
	if !sigOK(leaf, inter) {
		return "leaf-signature"
	}
	if inter.ParentOf < 0 {
		return "no-root"
	}
	var root *rec
	for _, s := range q.Store {
		if f.certs[s].fp == f.certs[inter.ParentOf].fp {
			root = f.certs[s]
		}
	}
	if root == nil {
		return "no-root"
	}
	if root.Type != tRoot {
		return "root-type"
	}
	if !timeOK(root, now) {
		return "root-time"
	}
	if !sigOK(inter, root) {
		return "intermediate-signature"
	}
	return ""
}

func runQuery(f *forest, q query) (err error, pan string) {
	defer func() {
		if x := recover(); x != nil {
			pan = fmt.Sprint(x)
		}
	}()
	var st certs.Store
	for _, s := range q.Store {
		st.AddCertificate(f.certs[s].parsed)
	}
	opts := certs.VerifyOptions{CurrentTime: time.Unix(q.NowUnix, q.NowNanos)}
	if q.Presented >= 0 {
		opts.PresentedIntermediate = f.certs[q.Presented].parsed
	}
	if q.Name != nil {
		opts.Name = certs.Name{Type: certs.IDType(q.Name.Type), Label: []byte(q.Name.Label)}
	}
	return st.VerifyLeaf(f.certs[q.Leaf].parsed, opts), ""
}

func describe(f *forest) []*rec { return f.certs }

func randQuery(f *forest, rng *vh.Rand) query {
	q := query{Presented: -1}
	// prefer leaf-typed certificates in the leaf slot
	var leaves []int
	for _, c := range f.certs {
		if c.Type == tLeaf {
			leaves = append(leaves, c.Idx)
		}
	}
	if len(leaves) > 0 && rng.Chance(0.9) {
		q.Leaf = leaves[rng.Intn(len(leaves))]
	} else {
		q.Leaf = rng.Intn(len(f.certs))
	}
	leaf := f.certs[q.Leaf]
	// store: each cert with probability depending on type
	for _, c := range f.certs {
		p := 0.25
		if c.Type == tRoot {
			p = 0.8
		}
		if rng.Chance(p) {
			q.Store = append(q.Store, c.Idx)
		}
	}
	var inter *rec
	if leaf.ParentOf >= 0 {
		inter = f.certs[leaf.ParentOf]
	}
	switch k := rng.Intn(10); {
	case k < 6 && inter != nil:
		q.Presented = inter.Idx
	case k < 8:
		q.Presented = rng.Intn(len(f.certs))
	}
	if inter != nil && inter.ParentOf >= 0 && rng.Chance(0.7) {
		// make sure the named root is in the store most of the time
		found := false
		for _, s := range q.Store {
			if s == inter.ParentOf {
				found = true
			}
		}
		if !found {
			q.Store = append(q.Store, inter.ParentOf)
		}
	}
	switch k := rng.Intn(20); {
	case k < 8:
	case k < 14 && len(leaf.Names) > 0:
		n := leaf.Names[rng.Intn(len(leaf.Names))]
		q.Name = &n
	case k < 16 && len(leaf.Names) > 0:
		n := leaf.Names[rng.Intn(len(leaf.Names))]
		n.Type = (n.Type + 1) % 4
		q.Name = &n
	case k < 18:
		q.Name = &nameRec{Type: 0, Label: ""} // explicit empty raw name
	default:
		q.Name = &nameRec{Type: byte(rng.Intn(4)), Label: labels[rng.Intn(len(labels))]}
	}
	// clock: around the bounds of the chain members
	var bounds []int64
	for _, c := range []*rec{leaf, inter} {
		if c != nil {
			bounds = append(bounds, c.Issued, c.Expires)
			if c.ParentOf >= 0 {
				bounds = append(bounds, f.certs[c.ParentOf].Issued, f.certs[c.ParentOf].Expires)
			}
		}
	}
	switch k := rng.Intn(10); {
	case k < 6:
		q.NowUnix = base + int64(rng.Intn(10))
	default:
		b := bounds[rng.Intn(len(bounds))]
		switch rng.Intn(5) {
		case 0:
			q.NowUnix = b - 1
		case 1:
			q.NowUnix = b
		case 2:
			q.NowUnix, q.NowNanos = b, 1
		case 3:
			q.NowUnix, q.NowNanos = b-1, 999_999_999
		default:
			q.NowUnix = b + 1
		}
	}
	return q
}

func judgeQuery(r *vh.Runner, c *vh.Case, f *forest, q query) string {
	want := reference(f, q)
	err, pan := runQuery(f, q)
	r.Count("evaluations", 1)
	r.Count("verifyleaf_calls", 1)
	if want == "" {
		r.Count("reference_valid", 1)
	} else {
		r.Count("reference_invalid:"+want, 1)
	}
	detail := func() any {
		return map[string]any{"forest": describe(f), "query": q, "reference": want, "impl_error": fmt.Sprint(err), "panic": pan}
	}
	switch {
	case pan != "":
		c.Violate("C04:panic", detail())
	case err == nil && want != "":
		c.Violate("C04:accepts-invalid:"+want, detail())
	case err != nil && want == "":
		c.Violate("C04:rejects-valid", detail())
	}
	return want
}

func genC04(r *vh.Runner) {
	nBatches := r.Pick(256, 40000)
	perBatch := r.Pick(50, 125)
	for b := 0; b < nBatches; b++ {
		r.Case(fmt.Sprintf("forest/%d", b), map[string]any{"batch": b, "forests": perBatch}, func(c *vh.Case) {
			rng := vh.NewRand(r.Seed, "c04-forest", b)
			for k := 0; k < perBatch; k++ {
				f := buildForest(rng)
				for qn := 0; qn < 6; qn++ {
					q := randQuery(f, rng)
					want := judgeQuery(r, c, f, q)
					r.Nontrivial(fmt.Sprintf("q|%d|%d|%d|%s", b, k, qn, want))
					if b == 0 && k < 2 && qn == 0 {
						r.Sample(map[string]any{"kind": "forest-query", "n_certs": len(f.certs), "query": q, "reference": want})
					}
				}
				parentChecks(r, c, f, rng)
			}
		})
	}
	nChains := r.Pick(3, 200)
	for i := 0; i < nChains; i++ {
		r.Case(fmt.Sprintf("bitflip/%d", i), map[string]any{"chain": i}, func(c *vh.Case) { bitflips(r, c, i) })
	}
	nIssue := r.Pick(8, 200)
	for i := 0; i < nIssue; i++ {
		r.Case(fmt.Sprintf("issue/%d", i), map[string]any{"i": i}, func(c *vh.Case) { issued(r, c, i) })
	}
}

// parentChecks judges VerifyParent directly on random pairs.
func parentChecks(r *vh.Runner, c *vh.Case, f *forest, rng *vh.Rand) {
	for k := 0; k < 4; k++ {
		ch := f.certs[rng.Intn(len(f.certs))]
		pa := f.certs[rng.Intn(len(f.certs))]
		if ch.ParentOf >= 0 && rng.Chance(0.6) {
			pa = f.certs[ch.ParentOf]
		}
		want := ""
		switch ch.Type {
		case tLeaf:
			if pa.Type != tInt {
				want = "pairing"
			}
		case tInt:
			if pa.Type != tRoot {
				want = "pairing"
			}
		case tRoot:
			if pa.Type != tRoot {
				want = "pairing"
			} else if ch.ParentOf != -1 {
				want = "root-nonzero-parent"
			}
		default:
			want = "unknown-type"
		}
		if want == "" && ch.Type != tRoot && (ch.ParentOf < 0 || f.certs[ch.ParentOf].fp != pa.fp) {
			want = "link"
		}
		if want == "" && !sigOK(ch, pa) {
			want = "signature"
		}
		var err error
		pan := ""
		func() {
			defer func() {
				if x := recover(); x != nil {
					pan = fmt.Sprint(x)
				}
			}()
			err = certs.VerifyParent(ch.parsed, pa.parsed)
		}()
		r.Count("evaluations", 1)
		r.Count("verifyparent_calls", 1)
		detail := map[string]any{"forest": describe(f), "child": ch.Idx, "parent": pa.Idx, "reference": want, "impl_error": fmt.Sprint(err), "panic": pan}
		switch {
		case pan != "":
			c.Violate("C04:verifyparent:panic", detail)
		case err == nil && want != "":
			c.Violate("C04:verifyparent:accepts-invalid:"+want, detail)
		case err != nil && want == "":
			c.Violate("C04:verifyparent:rejects-valid", detail)
		}
	}
}

// bitflips: a chain that verifies with only the root stored and the
// intermediate presented; every single-bit flip of the raw leaf and of the raw
// presented intermediate must make verification fail.
func bitflips(r *vh.Runner, c *vh.Case, i int) {
	rng := vh.NewRand(r.Seed, "c04-flip", i)
	f := &forest{}
	for k := 0; k < 3; k++ {
		f.keys = append(f.keys, ed25519.NewKeyFromSeed(rng.Bytes(32)))
	}
	mk := func(rc *rec) *rec {
		rc.Idx = len(f.certs)
		rc.raw = serialize(rc, f, rng)
		rc.fp = sha3.Sum256(rc.raw)
		rc.parsed = new(certs.Certificate)
		if _, err := rc.parsed.ReadFrom(bytes.NewReader(rc.raw)); err != nil {
			panic(err)
		}
		f.certs = append(f.certs, rc)
		return rc
	}
	root := mk(&rec{Type: tRoot, Names: randNames(rng), Issued: base - 100, Expires: base + 100, KeyID: 0, ParentOf: -1, SignerID: 0})
	inter := mk(&rec{Type: tInt, Names: randNames(rng), Issued: base - 50, Expires: base + 50, KeyID: 1, ParentOf: 0, SignerID: 0})
	names := randNames(rng)
	if len(names) == 0 {
		names = []nameRec{{1, "host.example"}}
	}
	leaf := mk(&rec{Type: tLeaf, Names: names, Issued: base - 10, Expires: base + 10, KeyID: 2, ParentOf: 1, SignerID: 1})
	var st certs.Store
	st.AddCertificate(root.parsed)
	now := time.Unix(base, 0)
	name := certs.Name{Type: certs.IDType(names[0].Type), Label: []byte(names[0].Label)}
	if err := st.VerifyLeaf(leaf.parsed, certs.VerifyOptions{PresentedIntermediate: inter.parsed, Name: name, CurrentTime: now}); err != nil {
		c.Violate("C04:rejects-valid", map[string]any{"chain": describe(f), "err": err.Error(), "where": "bitflip control"})
		return
	}
	try := func(which string, raw []byte, bit int) {
		m := append([]byte(nil), raw...)
		m[bit/8] ^= 1 << (bit % 8)
		mc := new(certs.Certificate)
		r.Count("evaluations", 1)
		r.Count("bitflips", 1)
		n, err := mc.ReadFrom(bytes.NewReader(m))
		if err != nil || int(n) != len(m) {
			// unparseable or trailing garbage: a receiver that parses exactly
			// this buffer fails; count and go on
			r.Count("bitflip_parse_rejected", 1)
			if err != nil {
				return
			}
		}
		var verr error
		pan := ""
		func() {
			defer func() {
				if x := recover(); x != nil {
					pan = fmt.Sprint(x)
				}
			}()
			if which == "leaf" {
				verr = st.VerifyLeaf(mc, certs.VerifyOptions{PresentedIntermediate: inter.parsed, Name: name, CurrentTime: now})
			} else {
				verr = st.VerifyLeaf(leaf.parsed, certs.VerifyOptions{PresentedIntermediate: mc, Name: name, CurrentTime: now})
			}
		}()
		if pan != "" {
			c.Violate("C04:panic", map[string]any{"which": which, "bit": bit, "panic": pan, "raw": vh.Hex(m)})
		} else if verr == nil {
			c.Violate("C04:accepts-bitflip:"+which+":"+field(bit/8, len(raw)), map[string]any{"which": which, "bit": bit, "byte": bit / 8, "raw": vh.Hex(m), "orig": vh.Hex(raw)})
		}
	}
	for bit := 0; bit < len(leaf.raw)*8; bit++ {
		try("leaf", leaf.raw, bit)
	}
	for bit := 0; bit < len(inter.raw)*8; bit++ {
		try("intermediate", inter.raw, bit)
	}
	r.NontrivialN(int64(len(leaf.raw)*8 + len(inter.raw)*8))
	if i == 0 {
		r.Sample(map[string]any{"kind": "bitflip-chain", "leaf_len": len(leaf.raw), "intermediate_len": len(inter.raw), "names": names})
	}
}

func field(off, total int) string {
	switch {
	case off < 1:
		return "version"
	case off < 2:
		return "type"
	case off < 4:
		return "reserved"
	case off < 12:
		return "issued"
	case off < 20:
		return "expires"
	case off < 52:
		return "public-key"
	case off < 84:
		return "parent"
	case off >= total-64:
		return "signature"
	default:
		return "id-chunk"
	}
}

// issued: every chain made by the issuing functions verifies at times inside
// its window (explicit CurrentTime and, inside a bubble, the implicit clock).
func issued(r *vh.Runner, c *vh.Case, i int) {
	rng := vh.NewRand(r.Seed, "c04-issue", i)
	synctest.Test(r.T, func(t *testing.T) {
		// move the bubble clock to a case-specific instant
		time.Sleep(time.Duration(rng.Intn(1000)) * time.Hour)
		rootKey := keys.GenerateNewSigningKeyPair()
		root, err := certs.SelfSignRoot(certs.SigningIdentity(rootKey), rootKey)
		if err != nil {
			c.Inconclusive("SelfSignRoot: " + err.Error())
			return
		}
		root.ProvideKey((*[32]byte)(&rootKey.Private))
		intKey := keys.GenerateNewSigningKeyPair()
		inter, err := certs.IssueIntermediate(root, certs.SigningIdentity(intKey))
		if err != nil {
			c.Violate("C04:issue:intermediate-refused", err.Error())
			return
		}
		inter.ProvideKey((*[32]byte)(&intKey.Private))
		leafKey := keys.GenerateNewX25519KeyPair()
		names := []certs.Name{certs.DNSName("h" + fmt.Sprint(i)), certs.RawStringName("user")}
		validity := time.Duration(1+rng.Intn(100000)) * time.Second
		var leaf *certs.Certificate
		issuedAt := time.Now()
		switch rng.Intn(3) {
		case 0:
			leaf, err = certs.IssueLeaf(inter, certs.LeafIdentity(leafKey, names...))
			validity = 7 * 24 * time.Hour
		case 1:
			leaf, err = certs.IssueLeafWithValidity(inter, certs.LeafIdentity(leafKey, names...), validity)
		default:
			issuedAt = time.Now().Add(time.Duration(rng.Intn(3600)) * time.Second)
			leaf, err = certs.IssueLeafAt(inter, certs.LeafIdentity(leafKey, names...), issuedAt, validity)
		}
		if err != nil {
			c.Violate("C04:issue:leaf-refused", err.Error())
			return
		}
		// both the in-memory objects and their re-parsed serialisations
		reparse := func(x *certs.Certificate) *certs.Certificate {
			b, err := x.Marshal()
			if err != nil {
				panic(err)
			}
			y := new(certs.Certificate)
			if _, err := y.ReadFrom(bytes.NewReader(b)); err != nil {
				panic(err)
			}
			return y
		}
		for _, mode := range []string{"in-memory", "reparsed"} {
			l, in, ro := leaf, inter, root
			if mode == "reparsed" {
				l, in, ro = reparse(leaf), reparse(inter), reparse(root)
			}
			var st certs.Store
			st.AddCertificate(ro)
			st.AddCertificate(in)
			exp := l.ExpiresAt
			times := []time.Time{issuedAt.Truncate(time.Second).Add(time.Second), issuedAt.Add(validity / 2), exp.Truncate(time.Second).Add(-time.Nanosecond)}
			for _, now := range times {
				for _, nm := range []certs.Name{{}, names[0], names[1]} {
					r.Count("evaluations", 1)
					r.Count("issued_chain_verifications", 1)
					if err := st.VerifyLeaf(l, certs.VerifyOptions{CurrentTime: now, Name: nm}); err != nil {
						c.Violate("C04:rejects-valid:issued-chain", map[string]any{"mode": mode, "now": now.String(), "issued": l.IssuedAt.String(), "expires": l.ExpiresAt.String(), "err": err.Error()})
					}
				}
			}
			// at and after expiry: must fail
			for _, now := range []time.Time{exp.Truncate(time.Second).Add(time.Second), issuedAt.Truncate(time.Second).Add(-time.Second)} {
				r.Count("evaluations", 1)
				if err := st.VerifyLeaf(l, certs.VerifyOptions{CurrentTime: now}); err == nil {
					c.Violate("C04:accepts-invalid:leaf-time", map[string]any{"mode": mode, "now": now.String(), "issued": l.IssuedAt.String(), "expires": l.ExpiresAt.String()})
				}
			}
			// implicit clock (bubble time) when the leaf is valid now
			if !issuedAt.After(time.Now()) {
				r.Count("evaluations", 1)
				if err := st.VerifyLeaf(l, certs.VerifyOptions{}); err != nil {
					c.Violate("C04:rejects-valid:issued-chain-implicit-clock", map[string]any{"mode": mode, "err": err.Error()})
				}
			}
		}
		r.Nontrivial(fmt.Sprintf("issue|%d|%d", i, r.Seed))
		if i == 0 {
			r.Sample(map[string]any{"kind": "issued-chain", "validity_s": validity.Seconds(), "names": []string{"h0", "user"}})
		}
	})
}
