// Engine tubes_shutdown: C16 — tube and muxer shutdown always terminates and
// is clean. Random concurrent programs over the two ends of reliable and
// unreliable tubes and the two muxers, under loss patterns up to a dead
// network, with schedule perturbation at the verif-tagged hook points, inside
// synctest bubbles (virtual time) with the race detector. A case that stalls
// in the bubble (mutex-blocked goroutines stop virtual time) is re-executed by
// the driver in real-time mode (VERIF_REALTIME=1), where hangs are judged by
// the two-dump rule.
package tubes_shutdown

import (
	"errors"
	"fmt"
	"io"
	"net"
	"os"
	"runtime"
	"strings"
	"sync"
	"syscall"
	"testing"
	"time"

	"github.com/sirupsen/logrus"

	"hop.computer/hop/pkg/verifhook"
	"hop.computer/hop/tubes"

	"verif/harness/bub"
	"verif/harness/msgnet"
	"verif/harness/perturb"
	"verif/harness/vh"
)

func TestEngine(t *testing.T) {
	vh.Main(t, map[string]func(*vh.Runner){"C16": genC16})
}

func quietLog() *logrus.Entry {
	l := logrus.New()
	l.SetOutput(io.Discard)
	l.SetLevel(logrus.PanicLevel)
	return logrus.NewEntry(l)
}

func mix(z uint64) uint64 {
	z += 0x9E3779B97F4A7C15
	z = (z ^ (z >> 30)) * 0xBF58476D1CE4E5B9
	z = (z ^ (z >> 27)) * 0x94D049BB133111EB
	return z ^ (z >> 31)
}

func fill(key uint64, off int64, b []byte) {
	for i := range b {
		o := off + int64(i)
		b[i] = byte(mix(key+uint64(o>>3)) >> (8 * uint(o&7)))
	}
}

func matches(key uint64, off int64, b []byte) bool {
	for i := range b {
		o := off + int64(i)
		if b[i] != byte(mix(key+uint64(o>>3))>>(8*uint(o&7))) {
			return false
		}
	}
	return true
}

// ---------------------------------------------------------------------------
// call tracking at the client boundary

type call struct {
	id    int
	op    string
	actor string
	start time.Time
}

type tracker struct {
	bound   time.Duration
	overdue []string
	mu      sync.Mutex
	next    int
	open    map[int]*call
	count   map[string]int
	slow    time.Duration
}

func (t *tracker) begin(actor, op string) *call {
	t.mu.Lock()
	defer t.mu.Unlock()
	t.next++
	c := &call{id: t.next, op: op, actor: actor, start: time.Now()}
	t.open[c.id] = c
	t.count[op]++
	return c
}

func (t *tracker) end(c *call) {
	t.mu.Lock()
	delete(t.open, c.id)
	d := time.Since(c.start)
	if d > t.slow {
		t.slow = d
	}
	// Close, Stop and SetDeadline must return by themselves; WaitForClose is
	// judged separately (it may legitimately wait for the peer's Close), Read
	// and Accept only have to return once the muxer is stopped.
	selfTerminating := strings.HasPrefix(c.op, "Tube.Close") || strings.HasPrefix(c.op, "Muxer.Stop") || c.op == "Tube.SetDeadline"
	if selfTerminating && t.bound > 0 && d > t.bound && len(t.overdue) < 8 {
		t.overdue = append(t.overdue, fmt.Sprintf("%s by %s returned only after %s", c.op, c.actor, d.Round(time.Millisecond)))
	}
	t.mu.Unlock()
}

func (t *tracker) outstanding() []string {
	t.mu.Lock()
	defer t.mu.Unlock()
	var out []string
	for _, c := range t.open {
		out = append(out, fmt.Sprintf("%s by %s (open for %s)", c.op, c.actor, time.Since(c.start).Round(time.Millisecond)))
	}
	return out
}

// ---------------------------------------------------------------------------

type netPlan struct {
	Class  string        `json:"class"`
	Loss   float64       `json:"loss"`
	DeadAt time.Duration `json:"dead_at"` // <0: never
	// write-fails: from FailAt on, WriteMsg of one or both ends returns an
	// error (a refused destination) while everything the peer sends still arrives
	FailAt   time.Duration `json:"fail_at,omitempty"`
	FailSide int           `json:"fail_side,omitempty"` // 0 A, 1 B, 2 both
	// instants (µs after the start) at which second copies of set-up frames
	// arrive: around the moments the two muxers are stopped
	DupInitAtUs []int `json:"dup_init_at_us,omitempty"`
	DupTrain    int   `json:"dup_train,omitempty"`
}

func genNet(rng *vh.Rand) netPlan {
	switch rng.Intn(9) {
	case 8:
		return netPlan{Class: "write-fails", DeadAt: -1, Loss: float64(rng.Pick(0, 0, 10)) / 100,
			FailAt: time.Duration(rng.Pick(0, 1, 5, 20, 100, 300)) * time.Millisecond, FailSide: rng.Intn(3)}
	case 0, 1:
		return netPlan{Class: "healthy", DeadAt: -1}
	case 2:
		return netPlan{Class: "loss-10", Loss: 0.1, DeadAt: -1}
	case 3:
		return netPlan{Class: "loss-50", Loss: 0.5, DeadAt: -1}
	case 4:
		return netPlan{Class: "fin-only-loss", Loss: 1, DeadAt: -1}
	case 5:
		return netPlan{Class: "ack-only-loss", Loss: 0.7, DeadAt: -1}
	default:
		return netPlan{Class: "dead-network", DeadAt: time.Duration(rng.Pick(0, 1, 5, 20, 100, 300, 600)) * time.Millisecond}
	}
}

func (n netPlan) policy(rng *vh.Rand, start time.Time) msgnet.Policy {
	return func(dir, seq int, data []byte) []msgnet.Delivery {
		if n.DeadAt >= 0 && time.Since(start) >= n.DeadAt {
			return nil
		}
		hasData := len(data) >= 12 && (int(data[2])<<8|int(data[3])) > 0
		fin := len(data) >= 2 && data[1]&16 != 0
		p := n.Loss
		switch n.Class {
		case "fin-only-loss":
			if !fin || rng.Chance(0.3) {
				p = 0
			}
		case "ack-only-loss":
			if hasData || fin {
				p = 0
			}
		}
		if rng.Chance(p) {
			return nil
		}
		// a duplicating link: requests and responses of the tube set-up may
		// arrive a second time much later (around or after the close / Stop)
		if len(data) >= 2 && data[1]&3 != 0 && len(n.DupInitAtUs) > 0 && rng.Chance(0.5) {
			out := []msgnet.Delivery{{Data: data}}
			for _, at := range n.DupInitAtUs {
				// a train of copies across the few milliseconds a Stop takes
				for k := 0; k < n.DupTrain+1; k++ {
					if d := time.Duration(at+k*230)*time.Microsecond - time.Since(start); d > 0 {
						out = append(out, msgnet.Delivery{Data: data, Delay: d})
					}
				}
			}
			return out
		}
		if len(data) >= 2 && data[1]&3 != 0 && rng.Chance(0.3) {
			return []msgnet.Delivery{{Data: data}, {Data: data, Delay: time.Duration(rng.Pick(1, 50, 400, 1500, 3000, 3500)) * time.Millisecond}}
		}
		return []msgnet.Delivery{{Data: data}}
	}
}

type lateCreate struct {
	Side     int  `json:"side"`
	DeltaUs  int  `json:"delta_us"` // relative to the Stop of that side
	Reliable bool `json:"reliable"`
}

type opSpec struct {
	Op  string `json:"op"`
	N   int    `json:"n,omitempty"`
	Dms int    `json:"d_ms,omitempty"`
}

type program struct {
	Net             netPlan    `json:"net"`
	Tubes           []bool     `json:"tubes_reliable"`
	EndProgs        [][]opSpec `json:"end_programs"` // index 2*tube + side (0: creator A, 1: acceptor B)
	StopAfter       [2]int     `json:"stop_after_ms"`
	DoubleStop      bool       `json:"double_stop"`
	KeepAlive       bool       `json:"keepalive_traffic"` // a background tube keeps the muxers from idling out
	CloseDuringInit bool       `json:"close_during_init"`
	InitCloseLag    int        `json:"init_close_lag,omitempty"` // 1-6: scheduler turns; more: microseconds
	// tubes requested around the moment Stop is called on that side (never
	// closed by the harness: after Stop returned nothing may be left of them)
	LateCreate []lateCreate `json:"late_create,omitempty"`
	Strength   int          `json:"perturb_strength"`
}

// genEarlyClose: directed family - the acceptor closes the moment Accept hands
// it the tube (its FIN races the opener's initiation), both ends then close
// and wait, and nothing but the tubes' own mechanisms may complete the close
// for two virtual minutes.
func genEarlyClose(rng *vh.Rand) program {
	var p program
	p.Net = netPlan{Class: "healthy", DeadAt: -1}
	n := 1 + rng.Intn(3)
	for t := 0; t < n; t++ {
		p.Tubes = append(p.Tubes, true)
		a := []opSpec{{Op: "read"}, {Op: "close"}, {Op: "waitforclose"}}
		if rng.Bool() {
			a = []opSpec{{Op: "close"}, {Op: "waitforclose"}}
		}
		b := []opSpec{{Op: "close"}, {Op: "waitforclose"}}
		if rng.Chance(0.3) {
			b = []opSpec{{Op: "write", N: rng.Pick(1, 100, 40000)}, {Op: "close"}, {Op: "waitforclose"}}
		}
		p.EndProgs = append(p.EndProgs, a, b)
	}
	p.StopAfter = [2]int{100000 + rng.Intn(40000), 100000 + rng.Intn(40000)}
	p.KeepAlive = true
	p.Strength = rng.Pick(20, 60, 90)
	return p
}

func genProgram(rng *vh.Rand) program {
	if rng.Chance(0.2) {
		return genEarlyClose(rng)
	}
	var p program
	p.Net = genNet(rng)
	n := 1 + rng.Intn(3)
	for t := 0; t < n; t++ {
		p.Tubes = append(p.Tubes, rng.Chance(0.7))
	}
	ops := []string{"write", "write", "read", "read", "close", "waitforclose", "setdeadline", "sleep"}
	for t := 0; t < n; t++ {
		for side := 0; side < 2; side++ {
			k := 2 + rng.Intn(7)
			var prog []opSpec
			closed := false
			for j := 0; j < k; j++ {
				o := opSpec{Op: ops[rng.Intn(len(ops))]}
				switch o.Op {
				case "write":
					o.N = rng.Pick(0, 1, 100, 5000, 40000, 120000)
				case "read":
					o.Dms = rng.Pick(0, 0, 1, 20, 200) // 0: no deadline
				case "setdeadline":
					o.Dms = rng.Pick(-10, 0, 5, 50)
				case "sleep":
					o.Dms = rng.Pick(1, 10, 100)
				case "waitforclose":
					if !closed {
						o.Op = "close"
						closed = true
					}
				case "close":
					closed = true
				}
				prog = append(prog, o)
			}
			// most ends close eventually; some never do (Stop must then clean up)
			if !closed && rng.Chance(0.6) {
				prog = append(prog, opSpec{Op: "close"})
				if rng.Bool() {
					prog = append(prog, opSpec{Op: "waitforclose"})
				}
			}
			p.EndProgs = append(p.EndProgs, prog)
		}
	}
	p.StopAfter = [2]int{rng.Pick(0, 5, 50, 500, 3000), rng.Pick(0, 5, 50, 500, 3000, 3000)}
	if rng.Chance(0.25) && p.Net.Class != "dead-network" {
		// late stop: for two virtual minutes nothing but the tubes' own
		// mechanisms (FIN handshake, last-ack timer) can complete a close
		p.StopAfter = [2]int{100000 + rng.Intn(40000), 100000 + rng.Intn(40000)}
		p.KeepAlive = true
	}
	if rng.Chance(0.3) {
		for k := 1 + rng.Intn(4); k > 0; k-- {
			p.Net.DupInitAtUs = append(p.Net.DupInitAtUs, max(1, p.StopAfter[rng.Intn(2)]*1000+rng.Pick(-500, -50, -1, 0, 0, 1, 20, 100, 300, 1000, 3000)))
		}
	}
	if len(p.Net.DupInitAtUs) > 0 {
		p.Net.DupTrain = rng.Pick(0, 0, 12, 45)
	}
	p.DoubleStop = rng.Chance(0.3)
	p.CloseDuringInit = rng.Chance(0.3)
	p.InitCloseLag = rng.Pick(0, 0, 0, 0, 0, 0, 0, 0, 1, 2, 3, 5, 100, 1000)
	p.Strength = rng.Pick(0, 20, 40, 60)
	for k := rng.Pick(0, 0, 1, 2, 3); k > 0; k-- {
		p.LateCreate = append(p.LateCreate, lateCreate{Side: rng.Intn(2), DeltaUs: rng.Pick(-2000, -100, -1, 0, 1, 50, 300, 1000, 5000, 400000), Reliable: rng.Chance(0.4)})
	}
	return p
}

// deadFromStart: the network never delivers a single datagram and nobody calls
// Stop: the muxer's own idle time-out has to end everything. Create, Close and
// WaitForClose return within the bound, then Stop does.
func deadFromStart(r *vh.Runner, c *vh.Case, i int) {
	rng := vh.NewRand(r.Seed, "c16-dead", i)
	cfgTimeout := 1500 * time.Millisecond
	bound := cfgTimeout + 13*time.Second
	nw := msgnet.NewPair()
	nw.SetPolicy(func(dir, seq int, data []byte) []msgnet.Delivery { return nil })
	A := tubes.Client(nw.A, &tubes.Config{Timeout: cfgTimeout, Log: quietLog()})
	B := tubes.Server(nw.B, &tubes.Config{Timeout: cfgTimeout, Log: quietLog()})
	reliable := rng.Bool()
	closeFirst := rng.Bool()
	what := "unreliable"
	if reliable {
		what = "reliable"
	}
	fail := func(call string) {
		c.Violate("C16:call-does-not-return:"+call+":network-dead-from-the-start", map[string]any{"tube": what, "bound": bound.String(), "close_before_create_returned": closeFirst})
	}
	var tube tubes.Tube
	created := bub.Go(func() {
		if reliable {
			if t, err := A.CreateReliableTube(5); err == nil {
				tube = t
			}
		} else {
			if t, err := A.CreateUnreliableTube(5); err == nil {
				tube = t
			}
		}
	})
	if !bub.Within(created, bound) {
		fail("Muxer.CreateTube")
		return
	}
	r.Count("evaluations", 1)
	r.Count("dead_from_start:"+what, 1)
	r.Nontrivial(fmt.Sprintf("dead|%d", i))
	if tube != nil {
		if !bub.Within(bub.Go(func() { tube.Close() }), bound) {
			fail("Tube.Close")
			return
		}
		if !bub.Within(bub.Go(func() {
			switch t := tube.(type) {
			case *tubes.Reliable:
				t.WaitForClose()
			case *tubes.Unreliable:
				t.WaitForClose()
			}
		}), bound) {
			fail("Tube.WaitForClose")
			return
		}
	}
	if !bub.Within(bub.Go(func() { A.Stop(); B.Stop() }), bound) {
		fail("Muxer.Stop")
	}
}

// directedClose: four close histories that random programs reach only now and
// then, each with the muxers' idle time-out far away so that only the tube's
// own timers can finish the close, and each judging only the end those timers
// govern (an end in finWait whose peer has gone is the known finding).
//
//	crossing-fins:        both ends close, the FINs cross, then everything towards
//	                      one end is lost (its FIN is never acknowledged)
//	passive-close-no-ack: A closes, B (nothing unacknowledged) closes later and
//	                      the acknowledgement of its FIN never arrives
//	closed-before-init:   an unreliable tube on a dead network, a reader without
//	                      deadline, then Close
//	resp-and-fin-together: the acceptor answers and closes at once; its response
//	                      and its FIN reach the requester back to back
func directedClose(r *vh.Runner, c *vh.Case, i int) {
	rng := vh.NewRand(r.Seed, "c16-directed", i)
	kind := []string{"crossing-fins", "passive-close-no-ack", "closed-before-init", "resp-and-fin-together"}[i%4]
	bound := 15 * time.Second
	nw := msgnet.NewPair()
	A := tubes.Client(nw.A, &tubes.Config{Timeout: time.Hour, Log: quietLog()})
	B := tubes.Server(nw.B, &tubes.Config{Timeout: time.Hour, Log: quietLog()})
	defer func() {
		nw.SetPolicy(nil)
		if !bub.Within(bub.Go(func() { A.Stop(); B.Stop() }), bound) && !c.Violated() {
			c.Violate("C16:call-does-not-return:Muxer.Stop:"+kind, map[string]any{"bound": bound.String()})
		}
	}()
	acc := make(chan tubes.Tube, 4)
	go func() {
		for {
			t, err := B.Accept()
			if err != nil {
				return
			}
			acc <- t
		}
	}()
	r.Count("evaluations", 1)
	r.Count("directed_close:"+kind, 1)
	r.Nontrivial(fmt.Sprintf("directed|%d", i))
	fail := func(call string, d map[string]any) {
		d["bound"] = bound.String()
		c.Violate("C16:call-does-not-return:"+call+":"+kind, d)
	}
	isFIN := func(b []byte) bool { return len(b) >= 12 && b[1]&3 == 0 && b[1]&16 != 0 }
	switch kind {
	case "closed-before-init":
		nw.SetPolicy(func(dir, seq int, data []byte) []msgnet.Delivery { return nil })
		var u *tubes.Unreliable
		if !bub.Within(bub.Go(func() { u, _ = A.CreateUnreliableTube(4) }), bound) || u == nil {
			c.Inconclusive("create did not return a tube")
			return
		}
		readDone := bub.Go(func() { u.Read(make([]byte, 100)) })
		bub.Settle(time.Duration(rng.Pick(0, 1, 400)) * time.Millisecond)
		if !bub.Within(bub.Go(func() { u.Close() }), bound) {
			fail("Tube.Close", map[string]any{})
			return
		}
		if !bub.Within(readDone, bound) {
			fail("Tube.Read", map[string]any{"what": "a read that was waiting when the tube was closed before its initiation completed"})
			return
		}
		if !bub.Within(bub.Go(func() { u.Read(make([]byte, 100)) }), bound) {
			fail("Tube.Read", map[string]any{"what": "a read after Close"})
			return
		}
	case "resp-and-fin-together":
		var mu sync.Mutex
		var held [][]byte
		holding := true
		nw.SetPolicy(func(dir, seq int, data []byte) []msgnet.Delivery {
			mu.Lock()
			defer mu.Unlock()
			if dir == 1 && holding {
				held = append(held, append([]byte(nil), data...))
				return nil
			}
			return []msgnet.Delivery{{Data: data}}
		})
		var a *tubes.Reliable
		created := bub.Go(func() { a, _ = A.CreateReliableTube(4) })
		var b tubes.Tube
		select {
		case b = <-acc:
		case <-time.After(5 * time.Second):
			c.Inconclusive("accept timed out")
			return
		}
		if rng.Bool() {
			b.Write(rng.Bytes(1 + rng.Intn(200)))
		}
		b.Close()
		bub.Settle(time.Duration(rng.Pick(1, 5, 50)) * time.Millisecond)
		mu.Lock()
		holding = false
		frames := held
		mu.Unlock()
		for _, f := range frames {
			nw.Inject(1, f, 0) // back to back
		}
		if !bub.Within(created, bound) || a == nil {
			fail("Muxer.CreateReliableTube", map[string]any{})
			return
		}
		go io.Copy(io.Discard, a)
		bub.Settle(20 * time.Millisecond)
		if !bub.Within(bub.Go(func() { a.Close() }), bound) {
			fail("Tube.Close", map[string]any{})
			return
		}
		if !bub.Within(bub.Go(func() { a.WaitForClose(); b.(*tubes.Reliable).WaitForClose() }), bound) {
			fail("Tube.WaitForClose", map[string]any{"state_a": stateName(a), "state_b": stateName(b)})
			return
		}
	default:
		a, err := A.CreateReliableTube(4)
		if err != nil {
			c.Inconclusive("create: " + err.Error())
			return
		}
		var b *tubes.Reliable
		select {
		case t := <-acc:
			b, _ = t.(*tubes.Reliable)
		case <-time.After(5 * time.Second):
		}
		if b == nil {
			c.Inconclusive("accept timed out")
			return
		}
		go io.Copy(io.Discard, a)
		go io.Copy(io.Discard, b)
		for k := rng.Intn(4); k > 0; k-- {
			a.Write(rng.Bytes(1 + rng.Intn(300)))
			b.Write(rng.Bytes(1 + rng.Intn(300)))
		}
		bub.Settle(2 * time.Second) // everything written so far is acknowledged
		if kind == "passive-close-no-ack" {
			a.Close()
			bub.Settle(time.Duration(rng.Pick(50, 500, 3000)) * time.Millisecond) // B has seen the FIN and acknowledged it
			nw.SetPolicy(func(dir, seq int, data []byte) []msgnet.Delivery {
				if dir == 0 {
					return nil // nothing from A reaches B any more
				}
				return []msgnet.Delivery{{Data: data}}
			})
			if !bub.Within(bub.Go(func() { b.Close() }), bound) {
				fail("Tube.Close", map[string]any{})
				return
			}
			if !bub.Within(bub.Go(func() { b.WaitForClose() }), bound) {
				fail("Tube.WaitForClose", map[string]any{"state_of_the_waiting_end": stateName(b), "state_of_its_peer": stateName(a)})
			}
			return
		}
		// crossing FINs: each FIN is held until the other has been sent too
		victim := rng.Intn(2) // the end towards which everything is lost afterwards
		var mu sync.Mutex
		var first []byte
		firstDir := -1
		crossed := false
		nw.SetPolicy(func(dir, seq int, data []byte) []msgnet.Delivery {
			mu.Lock()
			defer mu.Unlock()
			if crossed {
				if (victim == 0 && dir == 1) || (victim == 1 && dir == 0) {
					return nil
				}
				return []msgnet.Delivery{{Data: data}}
			}
			if !isFIN(data) {
				return []msgnet.Delivery{{Data: data}}
			}
			if firstDir == -1 {
				first, firstDir = append([]byte(nil), data...), dir
				return nil
			}
			if dir == firstDir {
				return nil // a retransmission of the held FIN
			}
			crossed = true
			nw.Inject(firstDir, first, 0)
			return []msgnet.Delivery{{Data: data}}
		})
		if !bub.Within(bub.Go(func() {
			var wg sync.WaitGroup
			wg.Add(2)
			go func() { defer wg.Done(); a.Close() }()
			go func() { defer wg.Done(); b.Close() }()
			wg.Wait()
		}), bound) {
			fail("Tube.Close", map[string]any{})
			return
		}
		w := a
		if victim == 1 {
			w = b
		}
		if !bub.Within(bub.Go(func() { w.WaitForClose() }), bound) {
			mu.Lock()
			x := crossed
			mu.Unlock()
			fail("Tube.WaitForClose", map[string]any{"fins_crossed": x, "state_a": stateName(a), "state_b": stateName(b), "everything_lost_towards": []string{"A", "B"}[victim]})
		}
	}
}

// dupAckThenClose: the network repeats one acknowledgement far beyond the
// duplicate-ack limit (a duplicating link; nothing is lost). Whatever the tube
// makes of that, both ends can still close: Close and WaitForClose return
// within the bound against a cooperative peer, and Stop completes.
func dupAckThenClose(r *vh.Runner, c *vh.Case, i int) {
	rng := vh.NewRand(r.Seed, "c16-dupack", i)
	cfgTimeout := 1500 * time.Millisecond
	bound := cfgTimeout + 13*time.Second
	// in half of the cases the muxers' idle time-out is far away, so that only
	// the tubes' own mechanisms can finish the close within the bound
	muxTimeout := cfgTimeout
	if i%2 == 1 {
		muxTimeout = time.Hour
	}
	nw := msgnet.NewPair()
	A := tubes.Client(nw.A, &tubes.Config{Timeout: muxTimeout, Log: quietLog()})
	B := tubes.Server(nw.B, &tubes.Config{Timeout: muxTimeout, Log: quietLog()})
	acc := make(chan tubes.Tube, 4)
	go func() {
		for {
			t, err := B.Accept()
			if err != nil {
				return
			}
			acc <- t
		}
	}()
	a, err := A.CreateReliableTube(3)
	if err != nil {
		c.Inconclusive("create: " + err.Error())
		return
	}
	var b *tubes.Reliable
	select {
	case t := <-acc:
		b, _ = t.(*tubes.Reliable)
	case <-time.After(5 * time.Second):
	}
	if b == nil {
		c.Inconclusive("accept timed out")
		return
	}
	go func() {
		buf := make([]byte, 4096)
		for {
			if _, err := b.Read(buf); err != nil {
				return
			}
		}
	}()
	for k := 0; k < 25+rng.Intn(30); k++ {
		a.Write(rng.Bytes(1 + rng.Intn(500)))
		time.Sleep(time.Millisecond)
	}
	time.Sleep(50 * time.Millisecond)
	info := a.VerifInfo()
	storm := 120 + rng.Intn(200)
	for k := 0; k < storm; k++ {
		nw.Inject(1, tubes.VerifFrameToBytes(tubes.VerifFrame{TubeID: a.GetID(), REL: true, ACK: true, AckNo: uint32(info.PeerAcked), FrameNo: info.RecvNext}), 0)
	}
	time.Sleep(20 * time.Millisecond)
	r.Count("evaluations", 1)
	r.Count("duplicate_ack_storms", 1)
	r.Nontrivial(fmt.Sprintf("dupack|%d", i))
	fail := func(call string) {
		c.Violate("C16:call-does-not-return:"+call+":after-duplicate-ack-storm", map[string]any{"duplicate_acks": storm, "bound": bound.String(), "state_a": stateName(a), "state_b": stateName(b)})
	}
	if !bub.Within(bub.Go(func() { a.Close(); b.Close() }), bound) {
		fail("Tube.Close")
		return
	}
	if muxTimeout > cfgTimeout {
		// The end that saw the storm must be closed by its own tube's
		// mechanisms. Its peer is not judged here: once this end has dropped
		// the tube over the storm, the peer's FIN is never answered and only
		// the muxer's idle time-out ends its wait - the storm is traffic no
		// honest end produces, outside the loss patterns the property ranges over.
		if !bub.Within(bub.Go(func() { a.WaitForClose() }), bound) {
			fail("Tube.WaitForClose")
			go func() { A.Stop(); B.Stop() }()
			return
		}
		if !bub.Within(bub.Go(func() { b.WaitForClose() }), bound) {
			r.Count("peer_of_the_stormed_end_waits_for_the_idle_timeout", 1)
		}
	} else if !bub.Within(bub.Go(func() { a.WaitForClose(); b.WaitForClose() }), bound) {
		fail("Tube.WaitForClose")
		return
	}
	if !bub.Within(bub.Go(func() { A.Stop(); B.Stop() }), bound) {
		fail("Muxer.Stop")
	}
}

// slowSenderCloseRun (real time): a closing goroutine is held up for tens of
// milliseconds at the instrumented point inside sender.Close, between marking
// the sender closed and stopping its retransmission ticker, so that ticks fire
// meanwhile; the workload is a plain write / close / close / stop on a
// loss-free link. WaitForClose and Stop return.
func slowSenderCloseRun(r *vh.Runner, c *vh.Case, i int) {
	rng := vh.NewRand(r.Seed, "c16-slowclose", i)
	delay := time.Duration(rng.Pick(5, 20, 40, 80)) * time.Millisecond
	prev := verifhook.Install(&verifhook.Handler{Yield: func(point string) {
		if point == "tubes.sender.Close:cas" {
			time.Sleep(delay)
		}
	}})
	defer verifhook.Install(prev)
	nw := msgnet.NewPair()
	A := tubes.Client(nw.A, &tubes.Config{Timeout: 30 * time.Second, Log: quietLog()})
	B := tubes.Server(nw.B, &tubes.Config{Timeout: 30 * time.Second, Log: quietLog()})
	acc := make(chan tubes.Tube, 4)
	go func() {
		for {
			t, err := B.Accept()
			if err != nil {
				return
			}
			acc <- t
		}
	}()
	a, err := A.CreateReliableTube(3)
	if err != nil {
		c.Inconclusive("create: " + err.Error())
		return
	}
	var b tubes.Tube
	select {
	case b = <-acc:
	case <-time.After(5 * time.Second):
		c.Inconclusive("accept timed out")
		go A.Stop()
		go B.Stop()
		return
	}
	// acknowledged request/response traffic first: it brings the measured
	// round-trip time, and with it the period of the retransmission ticker,
	// from the initial third of a second down to milliseconds
	buf := make([]byte, 4096)
	for k := 0; k < 40+rng.Intn(80); k++ {
		a.Write(rng.Bytes(1 + rng.Intn(200)))
		b.SetReadDeadline(time.Now().Add(3 * time.Second))
		if _, err := b.Read(buf); err != nil {
			c.Inconclusive("ping-pong read failed: " + err.Error())
			go A.Stop()
			go B.Stop()
			return
		}
		b.Write(rng.Bytes(1 + rng.Intn(200)))
		a.SetReadDeadline(time.Now().Add(3 * time.Second))
		if _, err := a.Read(buf); err != nil {
			c.Inconclusive("ping-pong read failed: " + err.Error())
			go A.Stop()
			go B.Stop()
			return
		}
		time.Sleep(time.Millisecond)
	}
	a.SetReadDeadline(time.Time{})
	b.SetReadDeadline(time.Time{})
	go io.Copy(io.Discard, b)
	go io.Copy(io.Discard, a)
	if rng.Bool() {
		a.Write(rng.Bytes(1 + rng.Intn(3000)))
	}
	time.Sleep(time.Duration(rng.Intn(30)) * time.Millisecond)
	detailRTO := a.VerifInfo().RTO.String()
	r.Count("evaluations", 1)
	r.Count("closes_with_a_slow_sender_close", 1)
	r.Nontrivial(fmt.Sprintf("slowclose|%d", i))
	detail := map[string]any{"delay_in_sender_close": delay.String(), "rto_before_close": detailRTO}
	call := func(name string, f func()) bool {
		done := make(chan struct{})
		go func() { f(); close(done) }()
		select {
		case <-done:
			return true
		case <-time.After(8 * time.Second):
			same, dump := vh.StuckIn(3*time.Second, "hop/tubes.")
			if !same {
				c.Inconclusive("real-time slow-close case slow but still moving: " + name)
				return false
			}
			detail["goroutine_dump"] = dump
			// (no look at the tubes' states here: the accessor takes the very lock that may be stuck)
			c.Violate("C16:call-does-not-return:"+name+":slow-sender-close", detail)
			return false
		}
	}
	first, second := tubes.Tube(a), b
	if rng.Bool() {
		first, second = b, a
	}
	ok := call("Tube.Close", func() {
		first.Close()
		time.Sleep(time.Duration(rng.Pick(0, 2, 20, 20)) * time.Millisecond)
		second.Close()
	}) &&
		call("Tube.WaitForClose", func() { a.WaitForClose(); b.WaitForClose() })
	if ok {
		call("Muxer.Stop", func() {
			done := make(chan struct{})
			go func() { B.Stop(); close(done) }()
			A.Stop()
			<-done
		})
	} else {
		go A.Stop()
		go B.Stop()
	}
}

func genC16(r *vh.Runner) {
	ndc := r.Pick(24, 1200)
	for i := 0; i < ndc; i++ {
		r.Case(fmt.Sprintf("directed-close/%d", i), map[string]any{"case": i}, func(c *vh.Case) {
			c.Bubble(func() { directedClose(r, c, i) })
		})
	}
	nsc := r.Pick(8, 300)
	for i := 0; i < nsc; i++ {
		r.Case(fmt.Sprintf("slow-sender-close/%d", i), map[string]any{"case": i}, func(c *vh.Case) { slowSenderCloseRun(r, c, i) })
	}
	na := r.Pick(6, 150)
	for i := 0; i < na; i++ {
		r.Case(fmt.Sprintf("dup-ack-storm-then-close/%d", i), map[string]any{"case": i}, func(c *vh.Case) {
			c.Bubble(func() { dupAckThenClose(r, c, i) })
		})
	}
	nd := r.Pick(8, 200)
	for i := 0; i < nd; i++ {
		r.Case(fmt.Sprintf("dead-from-start/%d", i), map[string]any{"case": i}, func(c *vh.Case) {
			c.Bubble(func() { deadFromStart(r, c, i) })
		})
	}
	n := r.Pick(480, 24000)
	realTime := os.Getenv("VERIF_REALTIME") == "1"
	for i := 0; i < n; i++ {
		rng := vh.NewRand(r.Seed, "c16", i)
		prog := genProgram(rng)
		r.Case(fmt.Sprintf("program/%d", i), prog, func(c *vh.Case) {
			if realTime {
				runProgram(r, c, i, prog, true)
				return
			}
			out := c.Bubble(func() { runProgram(r, c, i, prog, false) })
			if out.Leak && !c.Violated() {
				c.Violate("C16:goroutines-left-after-stop:bubble-exit", map[string]any{"program": prog})
			}
			if out.Deadlock && !c.Violated() {
				c.Violate("C16:deadlock:all-goroutines-blocked", map[string]any{"program": prog})
			}
		})
	}
}

type endState struct {
	name     string
	tube     tubes.Tube
	reliable bool
	wkey     uint64 // stream this end writes
	rkey     uint64 // stream this end reads
	woff     int64
	roff     int64
	peer     *endState
	closeAt  time.Time // when the local Close returned
	closeRet bool      // local Close has returned
	wfcRet   bool      // WaitForClose has returned
	mu       sync.Mutex
}

func runProgram(r *vh.Runner, c *vh.Case, i int, prog program, realTime bool) {
	rng := vh.NewRand(r.Seed, "c16-run", i)
	cfgTimeout := 30 * time.Second
	scale := time.Millisecond
	if realTime {
		cfgTimeout = 1500 * time.Millisecond
	}
	bound := cfgTimeout + 3*time.Second + 10*time.Second
	pt := perturb.Install(r.Seed^uint64(i)*977, realTime, prog.Strength)
	defer pt.Remove()
	nw := msgnet.NewPair()
	A := tubes.Client(nw.A, &tubes.Config{Timeout: cfgTimeout, Log: quietLog()})
	B := tubes.Server(nw.B, &tubes.Config{Timeout: cfgTimeout, Log: quietLog()})
	tr := &tracker{open: map[int]*call{}, count: map[string]int{}, bound: bound}
	start := time.Now()
	// B's acceptor
	accepted := make(chan tubes.Tube, 16)
	go func() {
		for {
			cl := tr.begin("B", "Muxer.Accept")
			t, err := B.Accept()
			tr.end(cl)
			if err != nil {
				close(accepted)
				return
			}
			accepted <- t
		}
	}()
	if prog.KeepAlive {
		ka, err := A.CreateReliableTube(99)
		if err == nil {
			var kb tubes.Tube
			select {
			case kb = <-accepted:
			case <-time.After(5 * time.Second):
			}
			if kb != nil {
				go func() {
					for {
						if _, err := ka.Write([]byte("keepalive!")); err != nil {
							return
						}
						time.Sleep(5 * time.Second)
					}
				}()
				go func() {
					buf := make([]byte, 64)
					for {
						if _, err := kb.Read(buf); err != nil {
							return
						}
					}
				}()
			}
		}
	}
	var ends []*endState
	setupFailed := ""
	for t, rel := range prog.Tubes {
		var ta tubes.Tube
		var err error
		cl := tr.begin("A", "Muxer.CreateTube")
		if rel {
			var x *tubes.Reliable
			x, err = A.CreateReliableTube(tubes.TubeType(t + 1))
			ta = x
		} else {
			var x *tubes.Unreliable
			x, err = A.CreateUnreliableTube(tubes.TubeType(t + 1))
			ta = x
		}
		tr.end(cl)
		if err != nil {
			setupFailed = "create: " + err.Error()
			break
		}
		if prog.CloseDuringInit && t == 0 {
			// Close racing the initiation handshake; the acceptor may or may not ever see the tube
			// (at once, or a few scheduler turns or microseconds later, when the
			// peer's response may just have been processed)
			switch prog.InitCloseLag {
			case 0:
			case 1, 2, 3, 4, 5, 6:
				for k := 0; k < prog.InitCloseLag; k++ {
					runtime.Gosched()
				}
			default:
				time.Sleep(time.Duration(prog.InitCloseLag) * time.Microsecond)
			}
			cl := tr.begin("A", "Tube.Close(during-init)")
			ta.Close()
			tr.end(cl)
			continue
		}
		// match what B accepted by (id, reliability); a tube closed during its
		// initiation may or may not show up and is left alone
		var tb tubes.Tube
		deadline := time.After(5 * time.Second)
	waitAccept:
		for {
			select {
			case x, ok := <-accepted:
				if !ok {
					break waitAccept
				}
				if x.GetID() == ta.GetID() && x.IsReliable() == rel {
					tb = x
					break waitAccept
				}
			case <-deadline:
				break waitAccept
			}
		}
		if tb == nil {
			setupFailed = "accept timed out"
			break
		}
		ka, kb := mix(r.Seed^uint64(i)<<16^uint64(t)*2+1), mix(r.Seed^uint64(i)<<16^uint64(t)*2+2)
		ea := &endState{name: fmt.Sprintf("A.t%d", t), tube: ta, reliable: rel, wkey: ka, rkey: kb}
		eb := &endState{name: fmt.Sprintf("B.t%d", t), tube: tb, reliable: rel, wkey: kb, rkey: ka}
		ea.peer, eb.peer = eb, ea
		ends = append(ends, ea, eb)
	}
	if setupFailed != "" {
		c.Inconclusive("setup: " + setupFailed)
	}
	pol := prog.Net.policy(rng, start)
	if os.Getenv("VERIF_TRACE") == "1" {
		inner := pol
		pol = func(dir, seq int, data []byte) []msgnet.Delivery {
			out := inner(dir, seq, data)
			if len(data) >= 10 && len(data) < 12 {
				fmt.Fprintf(os.Stderr, "%10s dir=%d id=%d flags=%06b INIT type=%d delivered=%d\n", time.Since(start), dir, data[0], data[1], data[4], len(out))
			}
			if len(data) >= 12 {
				fmt.Fprintf(os.Stderr, "%10s dir=%d id=%d flags=%06b len=%d ack=%d frame=%d delivered=%d\n", time.Since(start), dir, data[0], data[1], int(data[2])<<8|int(data[3]),
					uint32(data[4])<<24|uint32(data[5])<<16|uint32(data[6])<<8|uint32(data[7]), uint32(data[8])<<24|uint32(data[9])<<16|uint32(data[10])<<8|uint32(data[11]), len(out))
			}
			return out
		}
	}
	nw.SetPolicy(pol)
	if prog.Net.Class == "write-fails" {
		werr := &net.OpError{Op: "write", Net: "udp", Err: syscall.ECONNREFUSED}
		time.AfterFunc(prog.Net.FailAt, func() {
			if prog.Net.FailSide != 1 {
				nw.A.FailWrites(werr)
			}
			if prog.Net.FailSide != 0 {
				nw.B.FailWrites(werr)
			}
		})
	}

	violate := func(sig string, d map[string]any) {
		d["program"] = prog
		d["net"] = prog.Net.Class
		d["real_time_mode"] = realTime
		c.Violate(sig, d)
	}
	var wg sync.WaitGroup
	for k, e := range ends {
		var ops []opSpec
		if k < len(prog.EndProgs) {
			ops = prog.EndProgs[k]
		}
		wg.Add(1)
		go func(e *endState, ops []opSpec) {
			defer wg.Done()
			buf := make([]byte, 65536)
			for _, o := range ops {
				switch o.Op {
				case "write":
					b := make([]byte, o.N)
					if e.reliable {
						fill(e.wkey, e.woff, b)
					} else if o.N > 30000 {
						b = b[:30000]
					}
					e.mu.Lock()
					closedBefore := e.closeRet
					e.mu.Unlock()
					cl := tr.begin(e.name, "Tube.Write")
					n, err := e.tube.Write(b)
					tr.end(cl)
					if e.reliable && n > 0 {
						e.woff += int64(n)
					}
					if closedBefore && err == nil && len(b) > 0 {
						violate("C16:write-succeeds-after-local-close:"+kind(e), map[string]any{"end": e.name, "n": n})
						return
					}
				case "read":
					if o.Dms > 0 {
						e.tube.SetReadDeadline(time.Now().Add(time.Duration(o.Dms) * scale))
					}
					e.mu.Lock()
					wfc := e.wfcRet
					e.mu.Unlock()
					cl := tr.begin(e.name, "Tube.Read")
					n, err := e.tube.Read(buf)
					tr.end(cl)
					if e.reliable && n > 0 {
						if !matches(e.rkey, e.roff, buf[:n]) {
							violate("C16:read-returns-bytes-that-are-not-the-stream:"+kind(e), map[string]any{"end": e.name, "offset": e.roff, "n": n, "closed_locally": wfc})
							return
						}
						e.roff += int64(n)
					}
					if wfc && err != nil && !errors.Is(err, io.EOF) && n == 0 {
						// after closure completed: buffered data, then end-of-stream - nothing else
						violate("C16:read-after-completed-close-returns-other-error:"+kind(e), map[string]any{"end": e.name, "err": err.Error()})
						return
					}
				case "close":
					cl := tr.begin(e.name, "Tube.Close")
					e.tube.Close()
					tr.end(cl)
					e.mu.Lock()
					if !e.closeRet {
						e.closeAt = time.Now()
					}
					e.closeRet = true
					e.mu.Unlock()
				case "waitforclose":
					cl := tr.begin(e.name, "Tube.WaitForClose")
					// a watcher records the states of both ends at the moment the
					// bound (counted from the later Close) expires with the call still open
					wfcDone := make(chan struct{})
					watcherExit := make(chan struct{})
					var snapMine, snapPeer string
					go func() {
						defer close(watcherExit)
						for {
							select {
							case <-wfcDone:
								return
							case <-time.After(250 * time.Millisecond):
							}
							e.mu.Lock()
							mine, myAt := e.closeRet, e.closeAt
							e.mu.Unlock()
							e.peer.mu.Lock()
							theirs, theirAt := e.peer.closeRet, e.peer.closeAt
							e.peer.mu.Unlock()
							if mine && theirs && time.Since(myAt) > bound && time.Since(theirAt) > bound {
								snapMine, snapPeer = stateName(e.tube), stateName(e.peer.tube)
								return
							}
						}
					}()
					e.tube.WaitForClose()
					close(wfcDone)
					<-watcherExit
					tr.end(cl)
					// once both ends have called Close, completion may only take the bound
					e.mu.Lock()
					mine, myAt := e.closeRet, e.closeAt
					e.mu.Unlock()
					e.peer.mu.Lock()
					theirs, theirAt := e.peer.closeRet, e.peer.closeAt
					e.peer.mu.Unlock()
					if mine && theirs {
						from := cl.start
						if myAt.After(from) {
							from = myAt
						}
						if theirAt.After(from) {
							from = theirAt
						}
						// the watcher decides: it took its snapshot iff the call was still
						// open when the bound (from the later Close) had expired
						// While the network keeps losing frames and the peer is itself
						// still working on the close (retransmitting with a backed-off
						// timer), being late is slow progress, not a verdict: at 70 % FIN
						// loss and a 10 s RTO a dozen attempts fail once in a while. It is
						// judged when the network is healthy or the peer has given up
						// (closed), since then nothing can complete the close any more.
						lossy := prog.Net.Class != "healthy" && prog.Net.Class != "write-fails"
						if d := time.Since(from); snapMine != "" && !realTime && lossy && snapPeer != "closed" {
							r.Count("waitforclose_slow_under_ongoing_loss(not judged)", 1)
						} else if snapMine != "" && !realTime {
							violate("C16:waitforclose-later-than-bound-after-both-ends-closed:"+kind(e)+":"+snapMine+":peer-"+snapPeer+":"+prog.Net.Class, map[string]any{"state_at_bound": snapMine, "peer_state_at_bound": snapPeer, "end": e.name, "took_after_both_closed": d.String(), "bound": bound.String(), "keepalive": prog.KeepAlive,
								"my_close_at": myAt.Sub(start).String(), "peer_close_at": theirAt.Sub(start).String(), "wait_started_at": cl.start.Sub(start).String(), "returned_at": time.Since(start).String(),
								"this_end": info(e.tube), "peer_end": info(e.peer.tube)})
							return
						}
					}
					e.mu.Lock()
					e.wfcRet = true
					e.mu.Unlock()
				case "setdeadline":
					var t time.Time
					if o.Dms != 0 {
						t = time.Now().Add(time.Duration(o.Dms) * scale)
					}
					cl := tr.begin(e.name, "Tube.SetDeadline")
					e.tube.SetDeadline(t)
					tr.end(cl)
				case "sleep":
					time.Sleep(time.Duration(o.Dms) * scale)
				}
				if c.Violated() {
					return
				}
			}
		}(e, ops)
	}
	// muxer stops at their programmed times (racing the tube programs)
	stopRet := [2]chan struct{}{make(chan struct{}), make(chan struct{})}
	for side, m := range []*tubes.Muxer{A, B} {
		side, m := side, m
		go func() {
			time.Sleep(time.Duration(prog.StopAfter[side]) * scale)
			if prog.DoubleStop {
				go func() {
					cl := tr.begin("AB"[side:side+1], "Muxer.Stop(second)")
					m.Stop()
					tr.end(cl)
				}()
			}
			cl := tr.begin("AB"[side:side+1], "Muxer.Stop")
			m.Stop()
			tr.end(cl)
			close(stopRet[side])
		}()
	}
	for _, lc := range prog.LateCreate {
		lc := lc
		m := []*tubes.Muxer{A, B}[lc.Side]
		wg.Add(1)
		go func() {
			defer wg.Done()
			time.Sleep(time.Duration(prog.StopAfter[lc.Side])*scale + time.Duration(lc.DeltaUs)*time.Microsecond)
			cl := tr.begin("AB"[lc.Side:lc.Side+1], "Muxer.CreateTube(around-stop)")
			var err error
			if lc.Reliable {
				_, err = m.CreateReliableTube(tubes.TubeType(77))
			} else {
				_, err = m.CreateUnreliableTube(tubes.TubeType(78))
			}
			tr.end(cl)
			if err == nil {
				r.Count("tubes_admitted_around_stop", 1)
			} else {
				r.Count("tubes_refused_around_stop", 1)
			}
		}()
	}
	// everything must have returned within the bound after the later Stop was issued
	latest := time.Duration(max(prog.StopAfter[0], prog.StopAfter[1])) * scale
	allDone := bub.Go(func() { wg.Wait(); <-stopRet[0]; <-stopRet[1] })
	finished := bub.Within(allDone, latest+bound)
	r.Count("evaluations", 1)
	r.Count("net:"+prog.Net.Class, 1)
	tr.mu.Lock()
	for op, k := range tr.count {
		r.Count("calls:"+op, int64(k))
	}
	slow := tr.slow
	tr.mu.Unlock()
	r.Max("max_call_duration_ms", int64(slow/time.Millisecond))
	for pnt, k := range pt.Hits() {
		r.Count("hook:"+pnt, int64(k))
	}
	r.Nontrivial("sig|" + pt.Signature())
	if c.Violated() {
		return
	}
	tr.mu.Lock()
	overdue := append([]string(nil), tr.overdue...)
	tr.mu.Unlock()
	if len(overdue) > 0 && !realTime {
		op := strings.SplitN(overdue[0], " by ", 2)[0]
		violate("C16:call-returns-later-than-bound:"+op+":"+prog.Net.Class, map[string]any{"overdue_calls": overdue, "bound": bound.String(), "keepalive": prog.KeepAlive})
		return
	}
	if !finished {
		out := tr.outstanding()
		ops := map[string]bool{}
		for _, o := range out {
			ops[strings.SplitN(o, " by ", 2)[0]] = true
		}
		var names []string
		for o := range ops {
			names = append(names, o)
		}
		d := map[string]any{"outstanding_calls": out, "virtual_or_real_elapsed": time.Since(start).String(), "bound": bound.String()}
		if realTime {
			same, dump := vh.StuckIn(3*time.Second, "hop/tubes.")
			d["goroutine_dump"] = dump
			if !same {
				c.Inconclusive("real-time mode: calls outstanding but goroutines still moving")
				return
			}
		}
		sortStrings(names)
		violate("C16:call-does-not-return:"+strings.Join(names, "+")+":"+prog.Net.Class, d)
		return
	}
	// goroutines of the tubes package still alive after both Stops returned?
	if !realTime {
		bub.Settle(8 * time.Second)
	} else {
		time.Sleep(2500 * time.Millisecond)
	}
	if left := tubesGoroutines(!realTime); len(left) > 0 {
		violate("C16:goroutines-left-after-stop:"+firstFunc(left[0]), map[string]any{"count": len(left), "goroutines": left[:min(len(left), 4)]})
		return
	}
	if i < 3 {
		r.Sample(map[string]any{"kind": "program", "program": prog, "interleaving_signature": pt.Signature(), "calls": tr.count})
	}
}

func kind(e *endState) string {
	if e.reliable {
		return "reliable"
	}
	return "unreliable"
}

func sortStrings(s []string) {
	for i := 1; i < len(s); i++ {
		for j := i; j > 0 && s[j] < s[j-1]; j-- {
			s[j], s[j-1] = s[j-1], s[j]
		}
	}
}

// tubesGoroutines returns the stacks of goroutines (of the current bubble, if
// inBubble) that are inside the tubes package.
func tubesGoroutines(inBubble bool) []string {
	buf := make([]byte, 1<<22)
	n := runtime.Stack(buf, true)
	blocks := strings.Split(string(buf[:n]), "\n\n")
	bubble := ""
	if inBubble && len(blocks) > 0 {
		hdr := strings.SplitN(blocks[0], "\n", 2)[0]
		if j := strings.Index(hdr, "synctest bubble "); j >= 0 {
			bubble = strings.TrimRight(hdr[j:], "]:")
		}
	}
	var out []string
	for _, b := range blocks[1:] {
		hdr := strings.SplitN(b, "\n", 2)[0]
		if inBubble && (bubble == "" || !strings.Contains(hdr, bubble+"]") && !strings.Contains(hdr, bubble+",")) {
			continue
		}
		if strings.Contains(b, "hop.computer/hop/tubes.") {
			if len(b) > 1500 {
				b = b[:1500]
			}
			out = append(out, b)
		}
	}
	return out
}

func firstFunc(block string) string {
	for _, l := range strings.Split(block, "\n") {
		if strings.HasPrefix(l, "hop.computer/hop/tubes.") {
			f := strings.TrimPrefix(l, "hop.computer/hop/tubes.")
			if j := strings.LastIndex(f, "("); j > 0 {
				f = f[:j]
			}
			return f
		}
	}
	return "unknown"
}

func info(t tubes.Tube) any {
	if r, ok := t.(*tubes.Reliable); ok {
		return r.VerifInfo()
	}
	if u, ok := t.(*tubes.Unreliable); ok {
		return map[string]any{"state": u.VerifState()}
	}
	return nil
}

var stateNames = []string{"created", "initiated", "closeWait", "lastAck", "finWait1", "finWait2", "closing", "closed"}

func stateName(t tubes.Tube) string {
	if r, ok := t.(*tubes.Reliable); ok {
		if st := int(r.VerifInfo().State); st >= 0 && st < len(stateNames) {
			return stateNames[st]
		}
		return "unknown"
	}
	if u, ok := t.(*tubes.Unreliable); ok {
		return fmt.Sprintf("unreliable-state-%d", u.VerifState())
	}
	return "unknown"
}
