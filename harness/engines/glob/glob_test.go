// Engine glob: C20 — host and virtual-host pattern matching is total and is
// glob matching. Pure, input-driven; panics are caught per evaluation.
package glob

import (
	"fmt"
	"strings"
	"testing"

	"hop.computer/hop/config"
	"hop.computer/hop/hopserver"
	"hop.computer/hop/pkg/glob"
	"hop.computer/hop/transport"

	"verif/harness/vh"
)

func TestEngine(t *testing.T) {
	vh.Main(t, map[string]func(*vh.Runner){"C20": genC20})
}

// ref is the declarative definition (DESIGN appendix B2), memoised.
func ref(p, s string) bool {
	memo := make([]int8, (len(p)+1)*(len(s)+1))
	var m func(i, j int) bool
	m = func(i, j int) bool {
		k := i*(len(s)+1) + j
		if memo[k] != 0 {
			return memo[k] == 1
		}
		var r bool
		switch {
		case i == len(p):
			r = j == len(s)
		case p[i] == '*':
			for x := j; x <= len(s) && !r; x++ {
				r = m(i+1, x)
			}
		default:
			r = j < len(s) && s[j] == p[i] && m(i+1, j+1)
		}
		if r {
			memo[k] = 1
		} else {
			memo[k] = -1
		}
		return r
	}
	return m(0, 0)
}

// call runs the real matcher, converting a panic into (false, msg).
func call(p, s string) (res bool, panicked string) {
	defer func() {
		if r := recover(); r != nil {
			panicked = fmt.Sprint(r)
		}
	}()
	return glob.Glob(p, s), ""
}

func allStrings(alpha string, maxLen int) []string {
	out := []string{""}
	prev := []string{""}
	for l := 1; l <= maxLen; l++ {
		var cur []string
		for _, p := range prev {
			for i := 0; i < len(alpha); i++ {
				cur = append(cur, p+string(alpha[i]))
			}
		}
		out = append(out, cur...)
		prev = cur
	}
	return out
}

type mismatch struct {
	Pattern string `json:"pattern"`
	Input   string `json:"input"`
	Got     string `json:"got"`
	Want    bool   `json:"want"`
}

// judge compares one pair; returns a signature ("" if it agrees).
func judge(p, s string) (string, mismatch) {
	want := ref(p, s)
	got, pan := call(p, s)
	if pan != "" {
		return "C20:glob:panic", mismatch{p, s, "panic: " + pan, want}
	}
	if got != want {
		if got {
			return "C20:glob:false-positive", mismatch{p, s, "true", want}
		}
		return "C20:glob:false-negative", mismatch{p, s, "false", want}
	}
	return "", mismatch{}
}

func genC20(r *vh.Runner) {
	type space struct {
		name   string
		palpha string
		plen   int
		ialpha string
		ilen   int
	}
	spaces := []space{{"ab*<=5 x ab<=6", "ab*", 5, "ab", 6}}
	if r.Thorough() {
		spaces = []space{
			{"ab*<=7 x ab<=9", "ab*", 7, "ab", 9},
			{"abc.*<=5 x abc.<=5", "abc.*", 5, "abc.", 5},
		}
	}
	const chunk = 64
	for _, sp := range spaces {
		pats := allStrings(sp.palpha, sp.plen)
		ins := allStrings(sp.ialpha, sp.ilen)
		for lo := 0; lo < len(pats); lo += chunk {
			hi := min(lo+chunk, len(pats))
			name := fmt.Sprintf("exh/%s/%d-%d", sp.name, lo, hi)
			r.Case(name, map[string]any{"space": sp.name, "patterns": pats[lo:hi][:min(4, hi-lo)], "n_inputs": len(ins)}, func(c *vh.Case) {
				var n int64
				seen := map[string]int{}
				for _, p := range pats[lo:hi] {
					for _, s := range ins {
						n++
						if sig, mm := judge(p, s); sig != "" {
							seen[sig]++
							if seen[sig] == 1 {
								c.Violate(sig, mm)
							}
						}
					}
				}
				r.Count("evaluations", n)
				r.Count("glob_pairs_exhaustive", n)
				r.NontrivialN(n)
				for sig, k := range seen {
					r.Count("mismatch:"+sig, int64(k))
				}
				if lo == 0 {
					r.Sample(map[string]any{"kind": "glob", "pattern": pats[hi-1], "input": ins[len(ins)-1], "impl": fmt.Sprint(call(pats[hi-1], ins[len(ins)-1])), "ref": ref(pats[hi-1], ins[len(ins)-1])})
				}
			})
		}
		r.Count("exhaustive_spaces_completed", 0) // set by the case below
	}
	// marker case: the exhaustive spaces were fully enumerated by this list
	r.Case("exh/complete", nil, func(c *vh.Case) { r.Count("exhaustive_spaces_completed", int64(len(spaces))) })

	// random long pairs incl. non-ASCII bytes, derived inputs that should match
	nRand := r.Pick(40, 300000)
	for b := 0; b < nRand; b++ {
		r.Case(fmt.Sprintf("rand/%d", b), map[string]any{"batch": b}, func(c *vh.Case) {
			rng := vh.NewRand(r.Seed, "glob-rand", b)
			seen := map[string]int{}
			for k := 0; k < 500; k++ {
				p, s := randPair(rng)
				r.Count("evaluations", 1)
				r.Count("glob_pairs_random", 1)
				r.Nontrivial("g|" + p + "|" + s)
				if sig, mm := judge(p, s); sig != "" {
					seen[sig]++
					if seen[sig] == 1 {
						c.Violate(sig, mm)
					}
				}
				if b == 0 && k < 2 {
					r.Sample(map[string]any{"kind": "glob-random", "pattern": p, "input": s, "ref": ref(p, s)})
				}
			}
		})
	}

	// long repetitive names: the matcher has to reconsider its choice for a
	// '*' many times (work quadratic in the lengths) and must still say yes
	// exactly when the declarative definition does
	nBack := r.Pick(12, 4000)
	for b := 0; b < nBack; b++ {
		r.Case(fmt.Sprintf("backtrack/%d", b), map[string]any{"batch": b}, func(c *vh.Case) {
			rng := vh.NewRand(r.Seed, "glob-back", b)
			seen := map[string]int{}
			for k := 0; k < 60; k++ {
				x := "ab.-0"[rng.Intn(5)]
				y := "bz.x"[rng.Intn(4)]
				if y == x {
					y = 'q'
				}
				rep := func(ch byte, n int) string { return strings.Repeat(string(ch), n) }
				kx, nx := 1+rng.Intn(40), rng.Intn(250)
				var pat, in string
				switch rng.Intn(5) {
				case 0: // *x^k y  against  x^n y
					pat, in = "*"+rep(x, kx)+string(y), rep(x, nx)+string(y)
				case 1: // prefix-*x^k.tail against prefix-x^n.tail (host names)
					tail := ".example.com"
					pat, in = "node-*"+rep(x, kx)+tail, "node-"+rep(x, nx)+tail
				case 2: // many stars: *x*x*x...y
					pat = strings.Repeat("*"+string(x), 1+rng.Intn(12)) + string(y)
					in = rep(x, nx) + string(y)
				case 3: // near miss: the tail differs in its last byte
					pat, in = "*"+rep(x, kx)+string(y)+"c", rep(x, nx)+string(y)+"d"
				default: // x^k*x^k against x^n
					pat, in = rep(x, kx)+"*"+rep(x, kx), rep(x, nx)
				}
				r.Count("evaluations", 1)
				r.Count("glob_pairs_backtracking", 1)
				r.Max("max_backtracking_input_len", int64(len(in)))
				r.Nontrivial("gb|" + pat + "|" + in)
				if sig, mm := judge(pat, in); sig != "" {
					seen[sig]++
					if seen[sig] == 1 {
						c.Violate(sig, mm)
					}
				}
				// the same pair through the client's host-pattern matcher
				if got, want := config.MatchHostPattern(pat, in), ref(pat, in); got != want {
					if seen["mhp"] == 0 {
						c.Violate("C20:matchhostpattern:disagrees-with-definition", map[string]any{"pattern": pat, "input": in, "got": got, "want": want})
					}
					seen["mhp"]++
				}
			}
		})
	}

	// MatchHost and VirtualHosts.Match on block lists
	nCfg := r.Pick(60, 300000)
	for b := 0; b < nCfg; b++ {
		r.Case(fmt.Sprintf("cfg/%d", b), map[string]any{"batch": b}, func(c *vh.Case) {
			rng := vh.NewRand(r.Seed, "glob-cfg", b)
			for k := 0; k < 40; k++ {
				checkMatchHost(r, c, rng, b == 0 && k == 0)
				checkVhosts(r, c, rng, b == 0 && k == 0)
			}
		})
	}
}

func randPair(rng *vh.Rand) (string, string) {
	alpha := []string{"ab*", "abc.*", "a*", "ab-._*\xc3\xa9\x00", "xyz*"}[rng.Intn(5)]
	plen := rng.Intn(12)
	var pb strings.Builder
	for i := 0; i < plen; i++ {
		if rng.Chance(0.3) {
			pb.WriteByte('*')
		} else {
			pb.WriteByte(alpha[rng.Intn(len(alpha))])
		}
	}
	p := pb.String()
	var sb strings.Builder
	switch rng.Intn(3) {
	case 0: // derive a matching input by expanding stars
		for i := 0; i < len(p); i++ {
			if p[i] == '*' {
				n := rng.Intn(4)
				for j := 0; j < n; j++ {
					sb.WriteByte(alpha[rng.Intn(len(alpha))])
				}
			} else {
				sb.WriteByte(p[i])
			}
		}
	case 1: // derived then perturbed
		for i := 0; i < len(p); i++ {
			if p[i] == '*' {
				n := rng.Intn(3)
				for j := 0; j < n; j++ {
					sb.WriteByte(alpha[rng.Intn(len(alpha))])
				}
			} else if rng.Chance(0.9) {
				sb.WriteByte(p[i])
			}
		}
		if rng.Chance(0.3) {
			sb.WriteByte(alpha[rng.Intn(len(alpha))])
		}
	default:
		n := rng.Intn(14)
		for j := 0; j < n; j++ {
			sb.WriteByte(alpha[rng.Intn(len(alpha))])
		}
	}
	return p, sb.String()
}

func randPattern(rng *vh.Rand) string {
	n := rng.Intn(5)
	var b strings.Builder
	for i := 0; i < n; i++ {
		b.WriteByte("ab*"[rng.Intn(3)])
	}
	return b.String()
}

func randInput(rng *vh.Rand) string {
	n := rng.Intn(6)
	var b strings.Builder
	for i := 0; i < n; i++ {
		b.WriteByte("ab"[rng.Intn(2)])
	}
	return b.String()
}

// checkMatchHost builds a client configuration whose blocks carry unique
// markers so the merged result identifies exactly which blocks were applied
// and in which order.
func checkMatchHost(r *vh.Runner, c *vh.Case, rng *vh.Rand, sample bool) {
	nb := 1 + rng.Intn(6)
	cfg := &config.ClientConfig{}
	gmark := "G"
	cfg.Global.CAFiles = []string{gmark}
	if rng.Bool() {
		// spare capacity in the global slice: aliasing between calls would show
		s := make([]string, 1, 8)
		s[0] = gmark
		cfg.Global.CAFiles = s
	}
	type blk struct {
		Patterns []string
		Marker   string
		Port     int
	}
	var blocks []blk
	for i := 0; i < nb; i++ {
		np := 1 + rng.Intn(3)
		var ps []string
		for j := 0; j < np; j++ {
			ps = append(ps, randPattern(rng))
		}
		m := fmt.Sprintf("B%d", i)
		user := m
		blocks = append(blocks, blk{ps, m, 1000 + i})
		cfg.Hosts = append(cfg.Hosts, config.HostConfigOptional{Patterns: ps, CAFiles: []string{m}, User: &user, Port: 1000 + i})
	}
	nq := 1 + rng.Intn(3)
	for q := 0; q < nq; q++ {
		in := randInput(rng)
		want := []string{gmark}
		wantUser := ""
		wantPort := 0
		for _, b := range blocks {
			for _, p := range b.Patterns {
				if ref(p, in) {
					want = append(want, b.Marker)
					wantUser = b.Marker
					wantPort = b.Port
					break
				}
			}
		}
		var got []string
		gotUser := ""
		gotPort := 0
		pan := ""
		func() {
			defer func() {
				if x := recover(); x != nil {
					pan = fmt.Sprint(x)
				}
			}()
			h := cfg.MatchHost(in)
			got = append([]string(nil), h.CAFiles...)
			if h.User != nil {
				gotUser = *h.User
			}
			gotPort = h.Port
		}()
		r.Count("evaluations", 1)
		r.Count("matchhost_queries", 1)
		r.Nontrivial(fmt.Sprintf("mh|%v|%s", blocks, in))
		detail := map[string]any{"blocks": blocks, "input": in, "got": got, "want": want, "panic": pan}
		if sample {
			r.Sample(map[string]any{"kind": "MatchHost", "blocks": blocks, "input": in, "applied": got, "expected": want})
			sample = false
		}
		if pan != "" {
			c.Violate("C20:matchhost:panic", detail)
			continue
		}
		if strings.Join(got, ",") != strings.Join(want, ",") || gotUser != wantUser || gotPort != wantPort {
			c.Violate("C20:matchhost:wrong-blocks", detail)
		}
	}
}

func checkVhosts(r *vh.Runner, c *vh.Case, rng *vh.Rand, sample bool) {
	n := 1 + rng.Intn(5)
	var vhs hopserver.VirtualHosts
	var pats []string
	for i := 0; i < n; i++ {
		p := randPattern(rng)
		pats = append(pats, p)
		vhs = append(vhs, hopserver.VirtualHost{Pattern: p, Certificate: transport.Certificate{RawLeaf: []byte{byte(i)}}})
	}
	in := randInput(rng)
	want := -1
	for i, p := range pats {
		if ref(p, in) {
			want = i
			break
		}
	}
	got := -2
	pan := ""
	func() {
		defer func() {
			if x := recover(); x != nil {
				pan = fmt.Sprint(x)
			}
		}()
		h := vhs.Match(in)
		if h == nil {
			got = -1
		} else {
			got = int(h.Certificate.RawLeaf[0])
			if h.Pattern != pats[got] {
				got = -3
			}
		}
	}()
	r.Count("evaluations", 1)
	r.Count("vhost_queries", 1)
	r.Nontrivial(fmt.Sprintf("vh|%v|%s", pats, in))
	detail := map[string]any{"patterns": pats, "input": in, "got": got, "want": want, "panic": pan}
	if sample {
		r.Sample(map[string]any{"kind": "VirtualHosts.Match", "patterns": pats, "input": in, "got_index": got, "expected_index": want})
	}
	if pan != "" {
		c.Violate("C20:vhost:panic", detail)
		return
	}
	if got != want {
		c.Violate("C20:vhost:wrong-host", detail)
	}
}
