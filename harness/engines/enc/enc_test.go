// Engine enc: C18 — wire encodings round-trip, and re-encoding preserves what
// was parsed. Every codec named by the property is driven with generated
// values (decode(encode(v)) == v), with accepted byte strings
// (decode(encode(decode(b))) == decode(b)) and with unrepresentable values
// (the encoder must refuse; if it does not, encode(v)||sentinel must decode to
// v and leave exactly the sentinel). Panics are caught per evaluation.
package enc

import (
	"bytes"
	"crypto/ed25519"
	"encoding/base64"
	"fmt"
	"io"
	"net"
	"reflect"
	"strings"
	"testing"
	"time"

	"github.com/creack/pty"

	"hop.computer/hop/authgrants"
	"hop.computer/hop/certs"
	"hop.computer/hop/codex"
	"hop.computer/hop/common"
	"hop.computer/hop/keys"
	"hop.computer/hop/portforwarding"
	"hop.computer/hop/tubes"
	"hop.computer/hop/userauth"

	"verif/harness/vh"
)

func TestEngine(t *testing.T) {
	vh.Main(t, map[string]func(*vh.Runner){"C18": genC18})
}

var sentinel = []byte{0xA7, 0x5E, 0x17, 0x1E, 0x99}

// codec describes one wire format for the generic drivers.
type codec struct {
	name string
	// gen returns a random representable value and a short description.
	gen func(rng *vh.Rand) any
	// enc encodes; err != nil means refused.
	enc func(v any) ([]byte, error)
	// dec decodes from r (it may read less than everything).
	dec func(r io.Reader) (any, error)
	// eq compares two decoded values, returning the first differing field.
	eq func(a, b any) string
	// overlong returns values that cannot be represented (may be nil).
	overlong func(rng *vh.Rand) []any
	// show renders a value for witnesses.
	show func(v any) any
}

func safe(f func()) (pan string) {
	defer func() {
		if x := recover(); x != nil {
			pan = fmt.Sprint(x)
		}
	}()
	f()
	return ""
}

func (cd *codec) encode(v any) (b []byte, err error, pan string) {
	pan = safe(func() { b, err = cd.enc(v) })
	return
}

func (cd *codec) decode(b []byte) (v any, rest []byte, err error, pan string) {
	rd := bytes.NewReader(b)
	pan = safe(func() { v, err = cd.dec(rd) })
	rest = b[len(b)-rd.Len():]
	return
}

func (cd *codec) render(v any) any {
	if cd.show != nil {
		return cd.show(v)
	}
	s := fmt.Sprintf("%+v", v)
	if len(s) > 600 {
		s = s[:600] + "…"
	}
	return s
}

// dirtyDecode makes the ReadFrom-style decoders start from a value that still
// holds data of an earlier use (a decoder must overwrite every field).
var dirtyDecode bool

// chunkReader hands out at most k bytes per Read call (k drawn per call).
type chunkReader struct {
	r   *bytes.Reader
	rng *vh.Rand
	max int
}

func (c *chunkReader) Read(p []byte) (int, error) {
	if len(p) == 0 {
		return 0, nil
	}
	n := 1
	if c.max > 1 {
		n = 1 + c.rng.Intn(c.max)
	}
	if n > len(p) {
		n = len(p)
	}
	return c.r.Read(p[:n])
}

// otherReaders: the same bytes through a reader that delivers them in pieces,
// and into a decoder target that was used before: same value, same framing.
func otherReaders(r *vh.Runner, c *vh.Case, cd *codec, v any, b []byte) {
	if strings.HasPrefix(cd.name, "certs.Certificate.PEM") {
		return // reads to the end of its input by construction
	}
	full := append(append([]byte{}, b...), sentinel...)
	rng := vh.NewRand(uint64(len(b)), "c18-readers", cd.name)
	for _, shape := range []string{"one-byte-reads", "short-reads", "reused-target"} {
		rd := bytes.NewReader(full)
		var src io.Reader = rd
		switch shape {
		case "one-byte-reads":
			src = &chunkReader{r: rd, rng: rng, max: 1}
		case "short-reads":
			src = &chunkReader{r: rd, rng: rng, max: 7}
		case "reused-target":
			dirtyDecode = true
		}
		var v2 any
		var err error
		pan := safe(func() { v2, err = cd.dec(src) })
		dirtyDecode = false
		r.Count("decodes:"+shape, 1)
		detail := map[string]any{"value": cd.render(v), "bytes": vh.HexCap(b, 200), "reader": shape}
		switch {
		case pan != "":
			detail["panic"] = pan
			c.Violate("C18:"+cd.name+":decode-panic:"+shape, detail)
			return
		case err != nil:
			detail["err"] = err.Error()
			c.Violate("C18:"+cd.name+":own-encoding-rejected:"+shape, detail)
			return
		}
		if d := cd.eq(v, v2); d != "" {
			detail["decoded"] = cd.render(v2)
			c.Violate("C18:"+cd.name+":roundtrip-differs:"+shape+":"+d, detail)
			return
		}
		if rest := full[len(full)-rd.Len():]; !bytes.Equal(rest, sentinel) {
			detail["left_over"] = vh.HexCap(rest, 32)
			c.Violate("C18:"+cd.name+":roundtrip-misframed:"+shape, detail)
			return
		}
	}
}

// roundTrip: decode(encode(v)) == v and nothing is left over.
func roundTrip(r *vh.Runner, c *vh.Case, cd *codec, v any) {
	r.Count("evaluations", 1)
	r.Count("roundtrips:"+cd.name, 1)
	b, err, pan := cd.encode(v)
	if pan != "" {
		c.Violate("C18:"+cd.name+":encode-panic:"+vh.PanicClass(pan), map[string]any{"value": cd.render(v), "panic": pan})
		return
	}
	if err != nil {
		c.Violate("C18:"+cd.name+":representable-value-refused", map[string]any{"value": cd.render(v), "err": err.Error()})
		return
	}
	v2, rest, err, pan := cd.decode(append(append([]byte{}, b...), sentinel...))
	if pan != "" {
		c.Violate("C18:"+cd.name+":decode-panic:"+vh.PanicClass(pan), map[string]any{"value": cd.render(v), "bytes": vh.HexCap(b, 200), "panic": pan})
		return
	}
	if err != nil {
		c.Violate("C18:"+cd.name+":own-encoding-rejected", map[string]any{"value": cd.render(v), "bytes": vh.HexCap(b, 200), "err": err.Error()})
		return
	}
	if d := cd.eq(v, v2); d != "" {
		c.Violate("C18:"+cd.name+":roundtrip-differs:"+d, map[string]any{"value": cd.render(v), "decoded": cd.render(v2), "bytes": vh.HexCap(b, 200)})
		return
	}
	if !bytes.Equal(rest, sentinel) {
		c.Violate("C18:"+cd.name+":roundtrip-misframed", map[string]any{"value": cd.render(v), "bytes": vh.HexCap(b, 200), "left_over": vh.HexCap(rest, 32)})
		return
	}
	otherReaders(r, c, cd, v, b)
}

// stable: for bytes the decoder accepts, re-encoding must succeed and decode
// to the same value.
func stable(r *vh.Runner, c *vh.Case, cd *codec, b []byte) bool {
	r.Count("evaluations", 1)
	v1, _, err, pan := cd.decode(b)
	if pan != "" {
		// decoder robustness belongs to C11; C18 only counts accepted strings
		r.Count("decoder_panics_seen(C11 scope):"+cd.name, 1)
		return false
	}
	if err != nil {
		return false
	}
	r.Count("accepted_strings:"+cd.name, 1)
	b2, err, pan := cd.encode(v1)
	if pan != "" {
		c.Violate("C18:"+cd.name+":reencode-panic:"+vh.PanicClass(pan), map[string]any{"bytes": vh.HexCap(b, 300), "decoded": cd.render(v1), "panic": pan})
		return true
	}
	if err != nil {
		c.Violate("C18:"+cd.name+":reencode-refused", map[string]any{"bytes": vh.HexCap(b, 300), "decoded": cd.render(v1), "err": err.Error()})
		return true
	}
	v2, _, err, pan := cd.decode(b2)
	if pan != "" || err != nil {
		c.Violate("C18:"+cd.name+":reencoding-rejected", map[string]any{"bytes": vh.HexCap(b, 300), "reencoded": vh.HexCap(b2, 300), "err": fmt.Sprint(err), "panic": pan})
		return true
	}
	if d := cd.eq(v1, v2); d != "" {
		c.Violate("C18:"+cd.name+":reencoding-differs:"+d, map[string]any{"bytes": vh.HexCap(b, 300), "first": cd.render(v1), "second": cd.render(v2)})
	}
	return true
}

// overlong: an unrepresentable value must be refused; otherwise its output
// followed by a sentinel must decode to the value and leave the sentinel.
func overlong(r *vh.Runner, c *vh.Case, cd *codec, v any) {
	r.Count("evaluations", 1)
	r.Count("overlong:"+cd.name, 1)
	b, err, pan := cd.encode(v)
	if pan != "" {
		c.Violate("C18:"+cd.name+":encode-panic:"+vh.PanicClass(pan), map[string]any{"value": cd.render(v), "panic": pan})
		return
	}
	if err != nil || b == nil {
		r.Count("overlong_refused:"+cd.name, 1)
		// a refused value leaves nothing behind: the next representable value
		// encodes exactly as it does at any other time
		if cd.gen != nil {
			next := cd.gen(vh.NewRand(uint64(len(cd.name)), "c18-after-refusal", cd.render(v)))
			b1, e1, p1 := cd.encode(next)
			b2, e2, p2 := cd.encode(next)
			if p1 == "" && p2 == "" && e1 == nil && e2 == nil && !bytes.Equal(b1, b2) {
				c.Violate("C18:"+cd.name+":encoding-differs-after-a-refused-value", map[string]any{"refused": cd.render(v), "next": cd.render(next),
					"first": vh.HexCap(b1, 48), "again": vh.HexCap(b2, 48), "len_first": len(b1), "len_again": len(b2)})
			}
			r.Count("encodes_after_refusal:"+cd.name, 1)
		}
		return
	}
	v2, rest, err, pan := cd.decode(append(append([]byte{}, b...), sentinel...))
	if pan == "" && err == nil && cd.eq(v, v2) == "" && bytes.Equal(rest, sentinel) {
		r.Count("overlong_actually_representable:"+cd.name, 1)
		return
	}
	c.Violate("C18:"+cd.name+":overlong-not-rejected", map[string]any{"value": cd.render(v), "encoded_len": len(b), "encoded_head": vh.HexCap(b, 24),
		"decoded": cd.render(v2), "decode_err": fmt.Sprint(err), "panic": pan, "left_over_len": len(rest)})
}

// ---------------------------------------------------------------------------
// value generators

var strLens = []int{0, 1, 2, 100, 254, 255}
var overLens = []int{256, 257, 300, 511, 512, 70000}

func randStr(rng *vh.Rand, n int) string {
	b := rng.Bytes(n)
	if rng.Bool() {
		const alpha = "abcXYZ019 /-_.:\x00\xff"
		for i := range b {
			b[i] = alpha[int(b[i])%len(alpha)]
		}
	}
	return string(b)
}

func randName(rng *vh.Rand) certs.Name {
	n := rng.Pick(0, 1, 2, 10, 100, 251, 252)
	return certs.Name{Type: certs.IDType(rng.Pick(0, 1, 2, 3, 4, 77, 255)), Label: rng.Bytes(n)}
}

// nameEq: same type and label bytes, and the same answer to IsZero (an empty
// label is not "no name").
func nameEq(a, b certs.Name) bool {
	return a.Type == b.Type && bytes.Equal(a.Label, b.Label) && a.IsZero() == b.IsZero()
}

func randTime(rng *vh.Rand) time.Time {
	switch rng.Intn(6) {
	case 0:
		return time.Unix(0, 0)
	case 1:
		return time.Unix(1<<63-1, 0)
	case 2:
		return time.Unix(1<<62, 0)
	case 3:
		return time.Unix(int64(rng.U64()>>1), 0)
	default:
		return time.Unix(1_600_000_000+int64(rng.Intn(400_000_000)), int64(rng.Intn(1_000_000_000)))
	}
}

func randChunk(rng *vh.Rand) certs.IDChunk {
	var ch certs.IDChunk
	total := 2
	n := rng.Intn(5)
	for i := 0; i < n; i++ {
		nm := randName(rng)
		if total+3+len(nm.Label) > 512 {
			// fill exactly to the limit sometimes
			room := 512 - total - 3
			if room < 0 {
				break
			}
			nm.Label = nm.Label[:min(room, len(nm.Label))]
		}
		total += 3 + len(nm.Label)
		ch.Blocks = append(ch.Blocks, nm)
	}
	return ch
}

func randCert(rng *vh.Rand) *certs.Certificate {
	c := &certs.Certificate{
		Version:   byte(rng.Pick(1, 1, 0, 2, 255)),
		Type:      certs.CertificateType(rng.Pick(1, 2, 3, 0, 9)),
		IssuedAt:  randTime(rng),
		ExpiresAt: randTime(rng),
		IDChunk:   randChunk(rng),
	}
	copy(c.PublicKey[:], rng.Bytes(32))
	copy(c.Parent[:], rng.Bytes(32))
	copy(c.Signature[:], rng.Bytes(64))
	return c
}

func chunkEq(a, b certs.IDChunk) bool {
	if len(a.Blocks) != len(b.Blocks) {
		return false
	}
	for i := range a.Blocks {
		if !nameEq(a.Blocks[i], b.Blocks[i]) {
			return false
		}
	}
	return true
}

func certEq(a, b *certs.Certificate) string {
	switch {
	case a.Version != b.Version:
		return "Version"
	case a.Type != b.Type:
		return "Type"
	case a.IssuedAt.Unix() != b.IssuedAt.Unix():
		return "IssuedAt"
	case a.ExpiresAt.Unix() != b.ExpiresAt.Unix():
		return "ExpiresAt"
	case !chunkEq(a.IDChunk, b.IDChunk):
		return "IDChunk"
	case a.PublicKey != b.PublicKey:
		return "PublicKey"
	case a.Parent != b.Parent:
		return "Parent"
	case a.Signature != b.Signature:
		return "Signature"
	}
	return ""
}

func showCert(c *certs.Certificate) any {
	var names []string
	for _, b := range c.IDChunk.Blocks {
		names = append(names, fmt.Sprintf("%d:%d bytes", b.Type, len(b.Label)))
	}
	return map[string]any{"version": c.Version, "type": c.Type, "issued": c.IssuedAt.Unix(), "expires": c.ExpiresAt.Unix(), "names": names}
}

func randIntent(rng *vh.Rand) authgrants.Intent {
	i := authgrants.Intent{
		GrantType:      authgrants.GrantType(rng.Pick(1, 2, 2, 3, 4, 5, 0, 99)),
		Reserved:       byte(rng.Pick(0, 0, 1, 255)),
		TargetPort:     uint16(rng.Pick(0, 1, 22, 77, 65535)),
		StartTime:      randTime(rng),
		ExpTime:        randTime(rng),
		TargetSNI:      randName(rng),
		TargetUsername: randStr(rng, strLens[rng.Intn(len(strLens))]),
		DelegateCert:   *randCert(rng),
	}
	if i.GrantType == authgrants.Command || rng.Chance(0.1) {
		i.AssociatedData.CommandGrantData.Cmd = randStr(rng, strLens[rng.Intn(len(strLens))])
	}
	return i
}

func intentEq(a, b authgrants.Intent) string {
	switch {
	case a.GrantType != b.GrantType:
		return "GrantType"
	case a.Reserved != b.Reserved:
		return "Reserved"
	case a.TargetPort != b.TargetPort:
		return "TargetPort"
	case a.StartTime.Unix() != b.StartTime.Unix():
		return "StartTime"
	case a.ExpTime.Unix() != b.ExpTime.Unix():
		return "ExpTime"
	case !nameEq(a.TargetSNI, b.TargetSNI):
		return "TargetSNI"
	case a.TargetUsername != b.TargetUsername:
		return "TargetUsername"
	}
	if d := certEq(&a.DelegateCert, &b.DelegateCert); d != "" {
		return "DelegateCert." + d
	}
	// the command text is only part of the encoding for Command grants
	if a.GrantType == authgrants.Command && a.AssociatedData.CommandGrantData.Cmd != b.AssociatedData.CommandGrantData.Cmd {
		return "Cmd"
	}
	return ""
}

func showIntent(i authgrants.Intent) any {
	return map[string]any{"grant_type": i.GrantType, "reserved": i.Reserved, "port": i.TargetPort, "start": i.StartTime.Unix(), "exp": i.ExpTime.Unix(),
		"sni": fmt.Sprintf("%d:%d bytes", i.TargetSNI.Type, len(i.TargetSNI.Label)), "user_len": len(i.TargetUsername),
		"cmd_len": len(i.AssociatedData.CommandGrantData.Cmd), "cert": showCert(&i.DelegateCert)}
}

type execReq struct {
	UsePty bool
	Cmd    string
	Term   string
	Size   *pty.Winsize
}

type fakeConn struct{ io.Reader }

func (fakeConn) Write(b []byte) (int, error)        { return len(b), nil }
func (fakeConn) Close() error                       { return nil }
func (fakeConn) LocalAddr() net.Addr                { return &net.UnixAddr{} }
func (fakeConn) RemoteAddr() net.Addr               { return &net.UnixAddr{} }
func (fakeConn) SetDeadline(t time.Time) error      { return nil }
func (fakeConn) SetReadDeadline(t time.Time) error  { return nil }
func (fakeConn) SetWriteDeadline(t time.Time) error { return nil }

type pfReq struct {
	Addr net.Addr
	Fwd  byte
}

func addrEq(a, b net.Addr) bool {
	if a == nil || b == nil {
		return a == nil && b == nil
	}
	if reflect.TypeOf(a) != reflect.TypeOf(b) {
		return false
	}
	switch x := a.(type) {
	case *net.TCPAddr:
		y := b.(*net.TCPAddr)
		return x.IP.Equal(y.IP) && x.Port == y.Port && x.Zone == y.Zone
	case *net.UDPAddr:
		y := b.(*net.UDPAddr)
		return x.IP.Equal(y.IP) && x.Port == y.Port && x.Zone == y.Zone
	case *net.UnixAddr:
		y := b.(*net.UnixAddr)
		return x.Name == y.Name
	}
	return false
}

func randIP(rng *vh.Rand) net.IP {
	switch rng.Intn(4) {
	case 0:
		return net.IPv4(byte(rng.Intn(256)), byte(rng.Intn(256)), byte(rng.Intn(256)), byte(rng.Intn(256)))
	case 1:
		return net.IP(rng.Bytes(16))
	case 2:
		return net.IPv4zero
	default:
		return net.ParseIP("::1")
	}
}

func codecs() []*codec {
	var cs []*codec
	// ---- common strings
	cs = append(cs, &codec{
		name: "common.String",
		gen:  func(rng *vh.Rand) any { return randStr(rng, strLens[rng.Intn(len(strLens))]) },
		enc: func(v any) ([]byte, error) {
			var b bytes.Buffer
			_, err := common.WriteString(v.(string), &b)
			return b.Bytes(), err
		},
		dec: func(r io.Reader) (any, error) { s, _, err := common.ReadString(r); return s, err },
		eq: func(a, b any) string {
			if a.(string) != b.(string) {
				return "value"
			}
			return ""
		},
		overlong: func(rng *vh.Rand) []any {
			var out []any
			for _, n := range overLens {
				out = append(out, randStr(rng, n))
			}
			return out
		},
		show: func(v any) any { return map[string]any{"len": len(v.(string))} },
	})
	// ---- certs.Name
	cs = append(cs, &codec{
		name: "certs.Name",
		gen:  func(rng *vh.Rand) any { return randName(rng) },
		enc: func(v any) ([]byte, error) {
			n := v.(certs.Name)
			var b bytes.Buffer
			_, err := n.WriteTo(&b)
			return b.Bytes(), err
		},
		dec: func(r io.Reader) (any, error) {
			var n certs.Name
			if dirtyDecode {
				n = certs.Name{Type: 0x55, Label: []byte("stale-label-from-an-earlier-use")}
			}
			_, err := n.ReadFrom(r)
			return n, err
		},
		eq: func(a, b any) string {
			if !nameEq(a.(certs.Name), b.(certs.Name)) {
				return "value"
			}
			return ""
		},
		overlong: func(rng *vh.Rand) []any {
			var out []any
			for _, n := range []int{253, 254, 255, 256, 300, 509, 65536 + 10} {
				out = append(out, certs.Name{Type: 1, Label: rng.Bytes(n)})
			}
			return out
		},
		show: func(v any) any { n := v.(certs.Name); return map[string]any{"type": n.Type, "label_len": len(n.Label)} },
	})
	// ---- certs.IDChunk
	cs = append(cs, &codec{
		name: "certs.IDChunk",
		gen:  func(rng *vh.Rand) any { return randChunk(rng) },
		enc: func(v any) ([]byte, error) {
			ch := v.(certs.IDChunk)
			var b bytes.Buffer
			_, err := ch.WriteTo(&b)
			return b.Bytes(), err
		},
		dec: func(r io.Reader) (any, error) {
			// (IDChunk.ReadFrom appends to the blocks already present: a reused
			// chunk is not something the statement covers, so it always starts empty)
			var ch certs.IDChunk
			_, err := ch.ReadFrom(r)
			return ch, err
		},
		eq: func(a, b any) string {
			if !chunkEq(a.(certs.IDChunk), b.(certs.IDChunk)) {
				return "value"
			}
			return ""
		},
		overlong: func(rng *vh.Rand) []any {
			mk := func(sizes ...int) certs.IDChunk {
				var ch certs.IDChunk
				for _, n := range sizes {
					ch.Blocks = append(ch.Blocks, certs.Name{Type: 1, Label: rng.Bytes(n)})
				}
				return ch
			}
			return []any{mk(252, 252), mk(252, 251), mk(252, 253), mk(200, 200, 200), mk(252, 252, 252)}
		},
		show: func(v any) any {
			var s []int
			for _, b := range v.(certs.IDChunk).Blocks {
				s = append(s, len(b.Label))
			}
			return map[string]any{"label_lens": s}
		},
	})
	// ---- certs.Certificate (binary and PEM)
	cs = append(cs, &codec{
		name: "certs.Certificate",
		gen:  func(rng *vh.Rand) any { return randCert(rng) },
		enc:  func(v any) ([]byte, error) { return v.(*certs.Certificate).Marshal() },
		dec: func(r io.Reader) (any, error) {
			c := new(certs.Certificate)
			_, err := c.ReadFrom(r)
			return c, err
		},
		eq:   func(a, b any) string { return certEq(a.(*certs.Certificate), b.(*certs.Certificate)) },
		show: func(v any) any { return showCert(v.(*certs.Certificate)) },
		overlong: func(rng *vh.Rand) []any {
			c := randCert(rng)
			c.IDChunk = certs.IDChunk{Blocks: []certs.Name{{Type: 1, Label: rng.Bytes(252)}, {Type: 1, Label: rng.Bytes(252)}, {Type: 0, Label: rng.Bytes(10)}}}
			d := randCert(rng)
			d.IDChunk = certs.IDChunk{Blocks: []certs.Name{{Type: 1, Label: rng.Bytes(256)}}}
			return []any{c, d}
		},
	})
	cs = append(cs, &codec{
		name: "certs.Certificate.PEM",
		gen:  func(rng *vh.Rand) any { return randCert(rng) },
		enc:  func(v any) ([]byte, error) { return certs.EncodeCertificateToPEM(v.(*certs.Certificate)) },
		dec: func(r io.Reader) (any, error) {
			// PEM is self-delimiting text: read up to the END line
			all, _ := io.ReadAll(r)
			end := bytes.Index(all, []byte("-----END HOP CERTIFICATE-----\n"))
			if end < 0 {
				return nil, fmt.Errorf("no PEM end")
			}
			end += len("-----END HOP CERTIFICATE-----\n")
			if rs, ok := r.(io.Seeker); ok {
				rs.Seek(int64(end-len(all)), io.SeekCurrent)
			}
			return certs.ReadCertificatePEM(all[:end])
		},
		eq:   func(a, b any) string { return certEq(a.(*certs.Certificate), b.(*certs.Certificate)) },
		show: func(v any) any { return showCert(v.(*certs.Certificate)) },
	})
	// ---- a PEM bundle of several certificates (a CA file)
	cs = append(cs, &codec{
		name: "certs.Certificate.PEM-bundle",
		gen: func(rng *vh.Rand) any {
			var l []*certs.Certificate
			for k := 1 + rng.Intn(4); k > 0; k-- {
				l = append(l, randCert(rng))
			}
			return l
		},
		enc: func(v any) ([]byte, error) {
			var all []byte
			for _, c := range v.([]*certs.Certificate) {
				b, err := certs.EncodeCertificateToPEM(c)
				if err != nil {
					return nil, err
				}
				all = append(all, b...)
			}
			return all, nil
		},
		dec: func(r io.Reader) (any, error) {
			// self-delimiting text: the bundle ends with its last END line
			all, _ := io.ReadAll(r)
			const endLine = "-----END HOP CERTIFICATE-----\n"
			end := bytes.LastIndex(all, []byte(endLine))
			if end < 0 {
				end = 0 // an empty bundle
			} else {
				end += len(endLine)
			}
			if rs, ok := r.(io.Seeker); ok {
				rs.Seek(int64(end-len(all)), io.SeekCurrent)
			}
			cl, err := certs.ReadManyCertificatesPEM(bytes.NewReader(all[:end]))
			var l []*certs.Certificate
			for i := range cl {
				l = append(l, &cl[i])
			}
			return l, err
		},
		eq: func(a, b any) string {
			x, y := a.([]*certs.Certificate), b.([]*certs.Certificate)
			if len(x) != len(y) {
				return fmt.Sprintf("count(%d!=%d)", len(x), len(y))
			}
			for i := range x {
				if d := certEq(x[i], y[i]); d != "" {
					return fmt.Sprintf("certificate-%d-of-%d:%s", i+1, len(x), d)
				}
			}
			return ""
		},
		show: func(v any) any {
			var l []any
			for _, c := range v.([]*certs.Certificate) {
				l = append(l, showCert(c))
			}
			return l
		},
	})
	// ---- authgrants.Intent
	cs = append(cs, &codec{
		name: "authgrants.Intent",
		gen:  func(rng *vh.Rand) any { return randIntent(rng) },
		enc: func(v any) ([]byte, error) {
			i := v.(authgrants.Intent)
			var b bytes.Buffer
			_, err := i.WriteTo(&b)
			return b.Bytes(), err
		},
		dec:  func(r io.Reader) (any, error) { var i authgrants.Intent; _, err := i.ReadFrom(r); return i, err },
		eq:   func(a, b any) string { return intentEq(a.(authgrants.Intent), b.(authgrants.Intent)) },
		show: func(v any) any { return showIntent(v.(authgrants.Intent)) },
		overlong: func(rng *vh.Rand) []any {
			var out []any
			for _, n := range []int{256, 257, 511, 600} {
				i := randIntent(rng)
				i.TargetUsername = randStr(rng, n)
				out = append(out, i)
				j := randIntent(rng)
				j.GrantType = authgrants.Command
				j.AssociatedData.CommandGrantData.Cmd = randStr(rng, n)
				out = append(out, j)
			}
			k := randIntent(rng)
			k.TargetSNI = certs.Name{Type: 1, Label: rng.Bytes(253)}
			out = append(out, k)
			return out
		},
	})
	// ---- authgrants.AgMessage (all kinds incl. unknown)
	type agv = authgrants.AgMessage
	cs = append(cs, &codec{
		name: "authgrants.AgMessage",
		gen: func(rng *vh.Rand) any {
			var m agv
			switch rng.Intn(6) {
			case 0:
				m = authgrants.NewAuthGrantMessage(authgrants.IntentRequest, authgrants.MessageData{Intent: randIntent(rng)})
			case 1:
				m = authgrants.NewAuthGrantMessage(authgrants.IntentCommunication, authgrants.MessageData{Intent: randIntent(rng)})
			case 2:
				m = authgrants.NewAuthGrantMessage(authgrants.IntentConfirmation, authgrants.MessageData{})
			case 3, 4:
				m = authgrants.NewAuthGrantMessage(authgrants.IntentDenied, authgrants.MessageData{Denial: randStr(rng, strLens[rng.Intn(len(strLens))])})
			default:
				m = authgrants.NewAuthGrantMessage(authgrants.IntentConfirmation, authgrants.MessageData{})
				m.MsgType += 40 // unknown kind
			}
			return m
		},
		enc: func(v any) ([]byte, error) {
			m := v.(agv)
			var b bytes.Buffer
			_, err := m.WriteTo(&b)
			return b.Bytes(), err
		},
		dec: func(r io.Reader) (any, error) {
			var m agv
			if dirtyDecode {
				m.Data.Denial = "stale denial"
				m.Data.Intent.TargetUsername = "stale-user"
				m.Data.Intent.TargetSNI = certs.Name{Type: 0x55, Label: []byte("stale-sni")}
				m.Data.Intent.AssociatedData.CommandGrantData.Cmd = "stale command"
			}
			_, err := m.ReadFrom(r)
			return m, err
		},
		eq: func(a, b any) string {
			x, y := a.(agv), b.(agv)
			if x.MsgType != y.MsgType {
				return "MsgType"
			}
			switch x.MsgType {
			case authgrants.IntentRequest, authgrants.IntentCommunication:
				if d := intentEq(x.Data.Intent, y.Data.Intent); d != "" {
					return "Intent." + d
				}
			case authgrants.IntentDenied:
				if x.Data.Denial != y.Data.Denial {
					return "Denial"
				}
			}
			return ""
		},
		show: func(v any) any {
			m := v.(agv)
			return map[string]any{"msg_type": m.MsgType, "denial_len": len(m.Data.Denial), "intent": showIntent(m.Data.Intent)}
		},
		overlong: func(rng *vh.Rand) []any {
			var out []any
			for _, n := range []int{256, 300, 1000} {
				out = append(out, authgrants.NewAuthGrantMessage(authgrants.IntentDenied, authgrants.MessageData{Denial: randStr(rng, n)}))
			}
			return out
		},
	})
	// ---- proxy messages: failure/confirmation response
	cs = append(cs, &codec{
		name: "authgrants.ProxyResponse",
		gen: func(rng *vh.Rand) any {
			if rng.Chance(0.3) {
				return ""
			}
			// a failure with an empty reason is indistinguishable from… no: it is an error with empty text
			return "E" + randStr(rng, rng.Pick(0, 1, 100, 254))
		},
		enc: func(v any) ([]byte, error) {
			var b bytes.Buffer
			var err error
			if v.(string) == "" {
				err = authgrants.WriteConfirmation(&b)
			} else {
				err = authgrants.WriteFailure(&b, v.(string))
			}
			return b.Bytes(), err
		},
		dec: func(r io.Reader) (any, error) {
			// ReadResponse folds the failure reason into its error result
			err := authgrants.ReadResponse(r)
			if err == nil {
				return "", nil
			}
			return err.Error(), nil
		},
		eq: func(a, b any) string {
			if a.(string) != b.(string) {
				return "reason"
			}
			return ""
		},
		show: func(v any) any { return map[string]any{"reason_len": len(v.(string))} },
		overlong: func(rng *vh.Rand) []any {
			return []any{"E" + randStr(rng, 255), "E" + randStr(rng, 400)}
		},
	})
	cs = append(cs, &codec{
		name: "authgrants.UnreliableProxyID",
		gen:  func(rng *vh.Rand) any { return byte(rng.Intn(256)) },
		enc: func(v any) ([]byte, error) {
			var b bytes.Buffer
			err := authgrants.WriteUnreliableProxyID(&b, v.(byte))
			return b.Bytes(), err
		},
		dec: func(r io.Reader) (any, error) { return authgrants.ReadUnreliableProxyID(r) },
		eq: func(a, b any) string {
			if a.(byte) != b.(byte) {
				return "id"
			}
			return ""
		},
	})
	// ---- tubes frames (hook)
	cs = append(cs, &codec{
		name: "tubes.frame",
		gen: func(rng *vh.Rand) any {
			n := rng.Pick(0, 1, 100, 1000, 65523, 2000)
			fl := rng.Intn(64)
			return tubes.VerifFrame{AckNo: uint32(rng.U64()), FrameNo: uint32(rng.U64()), DataLength: uint16(n), TubeID: byte(rng.Intn(256)), Data: rng.Bytes(n),
				REQ: fl&1 != 0, RESP: fl&2 != 0, REL: fl&4 != 0, ACK: fl&8 != 0, FIN: fl&16 != 0, RTR: fl&32 != 0}
		},
		enc: func(v any) ([]byte, error) { return tubes.VerifFrameToBytes(v.(tubes.VerifFrame)), nil },
		dec: func(r io.Reader) (any, error) {
			// frames are datagram-delimited: the decoder gets header+declared length
			hdr := make([]byte, 12)
			if _, err := io.ReadFull(r, hdr); err != nil {
				return nil, err
			}
			n := int(hdr[2])<<8 | int(hdr[3])
			body := make([]byte, n)
			if _, err := io.ReadFull(r, body); err != nil {
				return nil, err
			}
			return tubes.VerifFrameFromBytes(append(hdr, body...))
		},
		eq: func(a, b any) string {
			x, y := a.(tubes.VerifFrame), b.(tubes.VerifFrame)
			xd, yd := x.Data, y.Data
			x.Data, y.Data = nil, nil
			if !reflect.DeepEqual(x, y) {
				return "header"
			}
			if !bytes.Equal(xd, yd) {
				return "data"
			}
			return ""
		},
		show: func(v any) any { f := v.(tubes.VerifFrame); f.Data = nil; return fmt.Sprintf("%+v", f) },
	})
	cs = append(cs, &codec{
		name: "tubes.initiateFrame",
		gen: func(rng *vh.Rand) any {
			n := rng.Pick(0, 1, 100, 1000)
			fl := rng.Intn(64)
			return tubes.VerifInitFrame{FrameNo: uint32(rng.U64()), DataLength: uint16(n), TubeID: byte(rng.Intn(256)), TubeType: tubes.TubeType(rng.Intn(256)), Data: rng.Bytes(n),
				REQ: fl&1 != 0, RESP: fl&2 != 0, REL: fl&4 != 0, ACK: fl&8 != 0, FIN: fl&16 != 0, RTR: fl&32 != 0}
		},
		enc: func(v any) ([]byte, error) { return tubes.VerifInitFrameToBytes(v.(tubes.VerifInitFrame)), nil },
		dec: func(r io.Reader) (any, error) {
			hdr := make([]byte, 10)
			if _, err := io.ReadFull(r, hdr); err != nil {
				return nil, err
			}
			n := int(hdr[2])<<8 | int(hdr[3])
			body := make([]byte, n)
			if _, err := io.ReadFull(r, body); err != nil {
				return nil, err
			}
			return tubes.VerifInitFrameFromBytes(append(hdr, body...)), nil
		},
		eq: func(a, b any) string {
			x, y := a.(tubes.VerifInitFrame), b.(tubes.VerifInitFrame)
			xd, yd := x.Data, y.Data
			x.Data, y.Data = nil, nil
			if !reflect.DeepEqual(x, y) {
				return "header"
			}
			if !bytes.Equal(xd, yd) {
				return "data"
			}
			return ""
		},
		show: func(v any) any { f := v.(tubes.VerifInitFrame); f.Data = nil; return fmt.Sprintf("%+v", f) },
	})
	// ---- codex exec request (hook + GetCmd)
	cs = append(cs, &codec{
		name: "codex.ExecRequest",
		gen: func(rng *vh.Rand) any {
			e := execReq{UsePty: rng.Bool(), Cmd: randStr(rng, rng.Pick(0, 1, 2, rng.Intn(40), 255, 256, 1000, 70000)), Term: randStr(rng, rng.Pick(0, 1, 2, rng.Intn(20), 14, 300))}
			if rng.Bool() {
				e.Size = &pty.Winsize{Rows: uint16(rng.U64()), Cols: uint16(rng.U64()), X: uint16(rng.U64()), Y: uint16(rng.U64())}
			}
			return e
		},
		enc: func(v any) ([]byte, error) {
			e := v.(execReq)
			return codex.VerifExecInit(e.UsePty, e.Cmd, e.Term, e.Size), nil
		},
		dec: func(r io.Reader) (any, error) {
			cmd, term, usePty, size, err := codex.GetCmd(fakeConn{r})
			return execReq{UsePty: usePty, Cmd: cmd, Term: term, Size: size}, err
		},
		eq: func(a, b any) string {
			x, y := a.(execReq), b.(execReq)
			switch {
			case x.UsePty != y.UsePty:
				return "usePty"
			case x.Cmd != y.Cmd:
				return "cmd"
			case x.Term != y.Term:
				return "term"
			case (x.Size == nil) != (y.Size == nil):
				return "size-presence"
			case x.Size != nil && *x.Size != *y.Size:
				return "size"
			}
			return ""
		},
		show: func(v any) any {
			e := v.(execReq)
			return map[string]any{"use_pty": e.UsePty, "cmd_len": len(e.Cmd), "term_len": len(e.Term), "size": e.Size}
		},
	})
	// ---- userauth request (hook encoder; decoder = the wire format as read by GetInitMsg is driven through a real tube in part 2)
	cs = append(cs, &codec{
		name: "userauth.Request(encoder-framing)",
		gen:  func(rng *vh.Rand) any { return randStr(rng, rng.Pick(0, 1, 8, 32, 255, 256, 1000, 65535)) },
		enc:  func(v any) ([]byte, error) { return userauth.VerifInit(v.(string)), nil },
		dec: func(r io.Reader) (any, error) {
			// mirror of userauth.GetInitMsg's framing: 16-bit length, then the
			// name. (GetInitMsg itself only accepts a *tubes.Reliable; the
			// real function is driven through a real tube by C11's engine.)
			var l [2]byte
			if _, err := io.ReadFull(r, l[:]); err != nil {
				return nil, err
			}
			b := make([]byte, int(l[0])<<8|int(l[1]))
			if _, err := io.ReadFull(r, b); err != nil {
				return nil, err
			}
			// the encoder pads the request with two bytes the reader never
			// consumes; a tube carries exactly one request, so they are
			// skipped here and reported as an observation only
			var pad [2]byte
			io.ReadFull(r, pad[:])
			return string(b), nil
		},
		eq: func(a, b any) string {
			if a.(string) != b.(string) {
				return "username"
			}
			return ""
		},
		show: func(v any) any { return map[string]any{"username_len": len(v.(string))} },
		overlong: func(rng *vh.Rand) []any {
			return []any{randStr(rng, 65536), randStr(rng, 65537), randStr(rng, 70000)}
		},
	})
	// ---- port-forward request (hook)
	cs = append(cs, &codec{
		name: "portforwarding.Request",
		gen: func(rng *vh.Rand) any {
			p := pfReq{Fwd: byte(rng.Pick(4, 5, 0, 255))}
			switch rng.Intn(3) {
			case 0:
				p.Addr = &net.TCPAddr{IP: randIP(rng), Port: rng.Pick(0, 1, 22, 8080, 65535)}
			case 1:
				p.Addr = &net.UDPAddr{IP: randIP(rng), Port: rng.Pick(0, 1, 53, 65535)}
			default:
				p.Addr = &net.UnixAddr{Net: "unix", Name: "/" + strings.ReplaceAll(randStr(rng, rng.Pick(0, 1, 20, 107, 255, 256, 4000, 65534)), "\x00", "0")}
			}
			return p
		},
		enc: func(v any) ([]byte, error) {
			p := v.(pfReq)
			b := portforwarding.VerifToBytes(p.Addr, int(p.Fwd))
			if b == nil {
				return nil, fmt.Errorf("toBytes returned nil")
			}
			return b, nil
		},
		dec: func(r io.Reader) (any, error) {
			a, f, err := portforwarding.VerifReadPacket(r)
			return pfReq{Addr: a, Fwd: f}, err
		},
		eq: func(a, b any) string {
			x, y := a.(pfReq), b.(pfReq)
			if x.Fwd != y.Fwd {
				return "fwdType"
			}
			if !addrEq(x.Addr, y.Addr) {
				return "addr"
			}
			return ""
		},
		show: func(v any) any {
			p := v.(pfReq)
			s := fmt.Sprint(p.Addr)
			if len(s) > 80 {
				s = s[:80] + fmt.Sprintf("…(%d)", len(s))
			}
			return map[string]any{"addr_type": fmt.Sprintf("%T", p.Addr), "addr": s, "fwd": p.Fwd}
		},
		overlong: func(rng *vh.Rand) []any {
			return []any{pfReq{Addr: &net.UnixAddr{Net: "unix", Name: "/" + strings.Repeat("p", 65535)}, Fwd: 4},
				pfReq{Addr: &net.UnixAddr{Net: "unix", Name: "/" + strings.Repeat("q", 70000)}, Fwd: 5}}
		},
	})
	// ---- key text forms
	cs = append(cs, &codec{
		name: "keys.DHPublicKey.text",
		gen:  func(rng *vh.Rand) any { var k keys.DHPublicKey; copy(k[:], rng.Bytes(32)); return k },
		enc:  func(v any) ([]byte, error) { k := v.(keys.DHPublicKey); return []byte(k.String() + "\n"), nil },
		dec: func(r io.Reader) (any, error) {
			line, err := readLine(r)
			if err != nil {
				return nil, err
			}
			k, err := keys.ParseDHPublicKey(line)
			if err != nil {
				return nil, err
			}
			return *k, nil
		},
		eq: func(a, b any) string {
			if a.(keys.DHPublicKey) != b.(keys.DHPublicKey) {
				return "key"
			}
			return ""
		},
		show: func(v any) any { k := v.(keys.DHPublicKey); return base64.StdEncoding.EncodeToString(k[:]) },
	})
	cs = append(cs, &codec{
		name: "keys.SigningPublicKey.text",
		gen:  func(rng *vh.Rand) any { var k keys.SigningPublicKey; copy(k[:], rng.Bytes(32)); return k },
		enc:  func(v any) ([]byte, error) { k := v.(keys.SigningPublicKey); return []byte(k.String() + "\n"), nil },
		dec: func(r io.Reader) (any, error) {
			line, err := readLine(r)
			if err != nil {
				return nil, err
			}
			k, err := keys.ParseSigningPublicKey(line)
			if err != nil {
				return nil, err
			}
			return *k, nil
		},
		eq: func(a, b any) string {
			if a.(keys.SigningPublicKey) != b.(keys.SigningPublicKey) {
				return "key"
			}
			return ""
		},
	})
	cs = append(cs, &codec{
		name: "keys.KEMPublicKey.text",
		gen: func(rng *vh.Rand) any {
			kp, err := keys.GenerateKEMKeyPair(rng)
			if err != nil {
				panic(err)
			}
			return &kp.Public
		},
		enc: func(v any) ([]byte, error) {
			s := keys.KEMPublicKeyToString(v.(*keys.KEMPublicKey))
			if s == "" {
				return nil, fmt.Errorf("empty")
			}
			return []byte(s + "\n"), nil
		},
		dec: func(r io.Reader) (any, error) {
			line, err := readLine(r)
			if err != nil {
				return nil, err
			}
			return keys.ParseKEMPublicKey(line)
		},
		eq: func(a, b any) string {
			x, _ := (*a.(*keys.KEMPublicKey)).MarshalBinary()
			y, _ := (*b.(*keys.KEMPublicKey)).MarshalBinary()
			if !bytes.Equal(x, y) {
				return "key"
			}
			return ""
		},
		show: func(v any) any { return "ML-KEM-512 public key" },
	})
	return cs
}

func readLine(r io.Reader) (string, error) {
	var b []byte
	one := make([]byte, 1)
	for {
		_, err := io.ReadFull(r, one)
		if err != nil {
			return "", err
		}
		if one[0] == '\n' {
			return string(b), nil
		}
		b = append(b, one[0])
	}
}

// mutate produces a variant of a valid encoding.
func mutate(rng *vh.Rand, b []byte) []byte {
	m := append([]byte{}, b...)
	if len(m) == 0 {
		return rng.Bytes(rng.Intn(8))
	}
	switch rng.Intn(6) {
	case 0:
		m[rng.Intn(len(m))] ^= 1 << uint(rng.Intn(8))
	case 1:
		m[rng.Intn(len(m))] = byte(rng.Pick(0, 1, 2, 3, 255, 254, 128))
	case 2:
		m = m[:rng.Intn(len(m))]
	case 3:
		m = append(m, rng.Bytes(1+rng.Intn(8))...)
	case 4: // small field near the start (lengths, types)
		m[rng.Intn(min(len(m), 24))] = byte(rng.Intn(256))
	default:
		i := rng.Intn(len(m))
		m = append(m[:i], append(rng.Bytes(1+rng.Intn(3)), m[i:]...)...)
	}
	return m
}

func genC18(r *vh.Runner) {
	cs := codecs()
	_ = ed25519.PublicKeySize
	nb := r.Pick(8, 12000)
	per := r.Pick(150, 300)
	for _, cd := range cs {
		for b := 0; b < nb; b++ {
			r.Case(fmt.Sprintf("%s/values/%d", cd.name, b), map[string]any{"codec": cd.name, "batch": b, "n": per}, func(c *vh.Case) {
				rng := vh.NewRand(r.Seed, "c18-val", cd.name, b)
				n := per
				if strings.HasPrefix(cd.name, "keys.KEM") {
					n = per / 10
				}
				for k := 0; k < n; k++ {
					v := cd.gen(rng)
					roundTrip(r, c, cd, v)
					r.Nontrivial(fmt.Sprintf("v|%s|%d|%d", cd.name, b, k))
					if b == 0 && k == 0 {
						r.Sample(map[string]any{"kind": "value", "codec": cd.name, "value": cd.render(v)})
					}
				}
			})
			r.Case(fmt.Sprintf("%s/strings/%d", cd.name, b), map[string]any{"codec": cd.name, "batch": b, "n": per}, func(c *vh.Case) {
				rng := vh.NewRand(r.Seed, "c18-str", cd.name, b)
				n := per
				if strings.HasPrefix(cd.name, "keys.KEM") {
					n = per / 10
				}
				for k := 0; k < n; k++ {
					base, err, pan := cd.encode(cd.gen(rng))
					if err != nil || pan != "" {
						continue
					}
					m := base
					if k%8 != 0 {
						m = mutate(rng, base)
						if rng.Chance(0.2) {
							m = mutate(rng, m)
						}
					}
					if stable(r, c, cd, m) {
						r.Nontrivial(fmt.Sprintf("s|%s|%x", cd.name, m[:min(len(m), 64)]))
					}
				}
			})
		}
		if cd.overlong != nil {
			r.Case(fmt.Sprintf("%s/overlong", cd.name), map[string]any{"codec": cd.name}, func(c *vh.Case) {
				rng := vh.NewRand(r.Seed, "c18-over", cd.name)
				for i, v := range cd.overlong(rng) {
					overlong(r, c, cd, v)
					r.Nontrivial(fmt.Sprintf("o|%s|%d", cd.name, i))
				}
			})
		}
	}
	// directed accepted byte strings for the certificate id-chunk (blocks that
	// overrun the declared chunk length, padded blocks)
	r.Case("certs.IDChunk/directed-strings", nil, func(c *vh.Case) {
		cd := cs[2]
		for _, b := range directedChunks() {
			if stable(r, c, cd, b) {
				r.Nontrivial(fmt.Sprintf("dc|%x", b[:min(len(b), 40)]))
			}
		}
	})
}

func directedChunks() [][]byte {
	var out [][]byte
	blk := func(size, typ, idlen int, fill byte) []byte {
		return append([]byte{byte(size), byte(typ), byte(idlen)}, bytes.Repeat([]byte{fill}, idlen)...)
	}
	chunk := func(declared int, blocks ...[]byte) []byte {
		b := []byte{byte(declared >> 8), byte(declared)}
		for _, x := range blocks {
			b = append(b, x...)
		}
		return b
	}
	// exact
	out = append(out, chunk(2+13, blk(13, 1, 10, 'a')))
	// last block overruns the declared length
	out = append(out, chunk(2+5, blk(13, 1, 10, 'a')))
	out = append(out, chunk(512, blk(255, 1, 252, 'a'), blk(255, 1, 252, 'b'), blk(255, 1, 252, 'c')))
	out = append(out, chunk(511, blk(255, 1, 252, 'a'), blk(255, 1, 252, 'b')))
	out = append(out, chunk(511, blk(254, 1, 251, 'a'), blk(254, 1, 251, 'b'), blk(255, 1, 252, 'c')))
	out = append(out, chunk(512, blk(255, 1, 252, 'a'), blk(254, 1, 251, 'b'), blk(255, 2, 252, 'c')))
	out = append(out, chunk(300, blk(255, 1, 252, 'a'), blk(44, 1, 41, 'b'), blk(255, 2, 252, 'c')))
	// block size larger than id length + 3 (padding never skipped)
	out = append(out, chunk(2+20, blk(20, 1, 10, 'a'), blk(10, 1, 7, 'b')))
	// empty chunk
	out = append(out, chunk(2))
	return out
}
