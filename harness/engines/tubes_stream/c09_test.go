package tubes_stream

// C09 — tubes are isolated from each other and from earlier tubes with the
// same id. Many tube instances (reliable and unreliable) are opened
// concurrently from both muxers, carry per-instance keyed data, are closed and
// reopened so that ids are reused; the adversary reorders across tubes,
// duplicates initiation frames and replays frames of closed instances.

import (
	"bytes"
	"encoding/binary"
	"errors"
	"fmt"
	"io"
	"sort"
	"sync"
	"time"

	"hop.computer/hop/transport"
	"hop.computer/hop/tubes"

	"verif/harness/bub"
	"verif/harness/msgnet"
	"verif/harness/vh"
)

type hdr struct {
	id             byte
	req, resp, rel bool
	ack, fin, rtr  bool
	dataLen        int
	ackNo, frameNo uint32
	initFrame      bool
	tubeType       byte
	ok             bool
}

func parseHdr(b []byte) hdr {
	var h hdr
	if len(b) < 10 {
		return h
	}
	h.id = b[0]
	f := b[1]
	h.req, h.resp, h.rel, h.ack, h.fin, h.rtr = f&1 != 0, f&2 != 0, f&4 != 0, f&8 != 0, f&16 != 0, f&32 != 0
	h.dataLen = int(binary.BigEndian.Uint16(b[2:4]))
	if h.req || h.resp {
		h.initFrame = true
		h.tubeType = b[4]
		h.frameNo = binary.BigEndian.Uint32(b[6:10])
		h.ok = true
		return h
	}
	if len(b) < 12 {
		return h
	}
	h.ackNo = binary.BigEndian.Uint32(b[4:8])
	h.frameNo = binary.BigEndian.Uint32(b[8:12])
	h.ok = len(b) >= 12+h.dataLen
	return h
}

// instance is one tube incarnation as the harness knows it.
type instance struct {
	uid      int
	gen      int
	creator  int // 0: muxer A, 1: muxer B
	reliable bool
	ttype    tubes.TubeType
	id       byte
	key      uint64
	total    int64 // reliable: stream length creator->acceptor
	nmsgs    int   // unreliable: messages creator->acceptor
	cr       tubes.Tube
	ac       tubes.Tube
	createOK bool
}

type accepted struct {
	id       byte
	reliable bool
	ttype    tubes.TubeType
	tube     tubes.Tube
}

func umsg(key uint64, uid, seq, n int) []byte {
	b := make([]byte, 16+n)
	copy(b, "UMSG")
	binary.BigEndian.PutUint32(b[4:], uint32(uid))
	binary.BigEndian.PutUint32(b[8:], uint32(seq))
	binary.BigEndian.PutUint32(b[12:], uint32(n))
	fill(key+uint64(seq)*7919, 0, b[16:])
	return b
}

func genC09(r *vh.Runner) {
	n := r.Pick(240, 20000)
	for i := 0; i < n; i++ {
		r.Case(fmt.Sprintf("isolation/%d", i), map[string]any{"case": i}, func(c *vh.Case) {
			c.Bubble(func() { isolationRun(r, c, i) })
		})
	}
	nl := r.Pick(3, 60)
	for i := 0; i < nl; i++ {
		r.Case(fmt.Sprintf("late-frame-far-ahead/%d", i), map[string]any{"case": i}, func(c *vh.Case) {
			c.Bubble(func() { lateFarFrameRun(r, c, i) })
		})
	}
	ne := r.Pick(4, 40)
	for i := 0; i < ne; i++ {
		r.Case(fmt.Sprintf("id-exhaustion/%d", i), map[string]any{"case": i}, func(c *vh.Case) {
			c.Bubble(func() { exhaustionRun(r, c, i) })
		})
		r.Case(fmt.Sprintf("accept-backlog/%d", i), map[string]any{"rep": i}, func(c *vh.Case) {
			c.Bubble(func() { backlogRun(r, c, i) })
		})
	}
	nn := r.Pick(8, 160)
	for i := 0; i < nn; i++ {
		r.Case(fmt.Sprintf("neighbour-reaped/%d", i), map[string]any{"case": i}, func(c *vh.Case) {
			c.Bubble(func() { neighbourReapedRun(r, c, i) })
		})
	}
	no := r.Pick(6, 120)
	for i := 0; i < no; i++ {
		r.Case(fmt.Sprintf("oversize-message/%d", i), map[string]any{"case": i}, func(c *vh.Case) {
			c.Bubble(func() { oversizeRun(r, c, i) })
		})
	}
}

// neighbourReapedRun: a reliable and an unreliable tube hold the same id (ids
// are handed out per kind). One of the two is closed from both ends and the
// muxers get time to forget it; the other stays open. A tube of the surviving
// kind created afterwards must get another id, and what is written on the old,
// still open tube arrives on that tube and on no other (faithful network).
func neighbourReapedRun(r *vh.Runner, c *vh.Case, i int) {
	rng := vh.NewRand(r.Seed, "c09-neighbour", i)
	mp := newMuxPair(2 * time.Hour)
	defer mp.stop()
	w, rd := mp.a, mp.b
	if rng.Bool() {
		w, rd = mp.b, mp.a
	}
	var acc []accepted
	var amu sync.Mutex
	go acceptLoop(rd, &acc, &amu)
	find := func(id byte, reliable bool, skip tubes.Tube) tubes.Tube {
		amu.Lock()
		defer amu.Unlock()
		for _, a := range acc {
			if a.id == id && a.reliable == reliable && a.tube != skip {
				return a.tube
			}
		}
		return nil
	}
	pre := rng.Intn(4) // tubes of both kinds opened first, so that the shared id varies
	for k := 0; k <= pre; k++ {
		if _, err := w.CreateReliableTube(tubes.TubeType(10 + k)); err != nil {
			c.Violate("C09:create-fails:neighbour-reaped", map[string]any{"err": err.Error()})
			return
		}
		if _, err := w.CreateUnreliableTube(tubes.TubeType(20 + k)); err != nil {
			c.Violate("C09:create-fails:neighbour-reaped", map[string]any{"err": err.Error()})
			return
		}
	}
	rel, err := w.CreateReliableTube(tubes.TubeType(40))
	if err != nil {
		c.Violate("C09:create-fails:neighbour-reaped", map[string]any{"err": err.Error()})
		return
	}
	unrel, err := w.CreateUnreliableTube(tubes.TubeType(41))
	if err != nil {
		c.Violate("C09:create-fails:neighbour-reaped", map[string]any{"err": err.Error()})
		return
	}
	if rel.GetID() != unrel.GetID() {
		return // ids of the two kinds are independent: nothing to observe here
	}
	id := rel.GetID()
	bub.Settle(time.Second)
	relPeer, _ := find(id, true, nil).(*tubes.Reliable)
	unrelPeer, _ := find(id, false, nil).(*tubes.Unreliable)
	if relPeer == nil || unrelPeer == nil {
		c.Violate("C09:opened-tube-never-offered-or-offered-with-other-type:neighbour-reaped", map[string]any{"id": id})
		return
	}
	key := rng.U64()
	closeReliable := rng.Bool()
	buf := make([]byte, 70000)
	// both carry something first
	m0 := umsg(key, i, 0, 100)
	unrel.WriteMsg(m0)
	rel.Write(m0)
	bub.Settle(time.Second)
	unrelPeer.SetReadDeadline(time.Now().Add(time.Second))
	if n, err := unrelPeer.ReadMsg(buf); err != nil || !bytes.Equal(buf[:n], m0) {
		return // lossless network: does not happen; nothing is judged on a tube that does not work
	}
	if _, err := io.ReadFull(relPeer, buf[:len(m0)]); err != nil || !bytes.Equal(buf[:len(m0)], m0) {
		c.Violate("C09:stream-breaks:neighbour-reaped", map[string]any{"id": id, "err": fmt.Sprint(err)})
		return
	}
	// one of the two goes away on both ends
	var gone [2]tubes.Tube
	if closeReliable {
		gone = [2]tubes.Tube{rel, relPeer}
	} else {
		gone = [2]tubes.Tube{unrel, unrelPeer}
	}
	var cw sync.WaitGroup
	for _, t := range gone {
		cw.Add(1)
		go func(t tubes.Tube) { defer cw.Done(); t.Close(); t.WaitForClose() }(t)
	}
	if !bub.Within(bub.Go(cw.Wait), 5*time.Minute) {
		c.Inconclusive("tube did not close within 5 virtual minutes (C16 judges shutdown)")
		return
	}
	bub.Settle(time.Duration(rng.Pick(0, 1, 30, 600)) * time.Second) // before / after the muxers forget the closed tube
	// a new tube of the surviving kind
	var fresh tubes.Tube
	if closeReliable {
		fresh, err = w.CreateUnreliableTube(tubes.TubeType(42))
	} else {
		fresh, err = w.CreateReliableTube(tubes.TubeType(42))
	}
	if err != nil {
		c.Violate("C09:create-fails:neighbour-reaped", map[string]any{"err": err.Error()})
		return
	}
	if fresh.GetID() == id {
		c.Violate("C09:two-live-tubes-share-an-id:neighbour-reaped", map[string]any{"id": id, "closed_kind_reliable": closeReliable})
		return
	}
	bub.Settle(time.Second)
	freshPeer := find(fresh.GetID(), !closeReliable, nil)
	if freshPeer == nil {
		c.Violate("C09:opened-tube-never-offered-or-offered-with-other-type:neighbour-reaped", map[string]any{"id": fresh.GetID()})
		return
	}
	// the survivor still carries its own data, and only there
	m1, m2 := umsg(key, i, 1, 200), umsg(key, i, 2, 300)
	if closeReliable {
		unrel.WriteMsg(m1)
		fresh.(*tubes.Unreliable).WriteMsg(m2)
		bub.Settle(time.Second)
		for _, e := range []struct {
			t    *tubes.Unreliable
			want []byte
			name string
		}{{unrelPeer, m1, "survivor"}, {freshPeer.(*tubes.Unreliable), m2, "fresh"}} {
			for {
				e.t.SetReadDeadline(time.Now().Add(time.Second))
				n, err := e.t.ReadMsg(buf)
				if err != nil {
					break
				}
				if !bytes.Equal(buf[:n], e.want) {
					c.Violate("C09:unreliable-delivers:message-of-another-instance:neighbour-reaped", map[string]any{"on": e.name, "id": id, "len": n, "head": vh.HexCap(buf[:n], 16)})
					return
				}
				r.Count("unreliable_messages_checked", 1)
			}
		}
	} else {
		rel.Write(m1)
		fresh.(*tubes.Reliable).Write(m2)
		for _, e := range []struct {
			t    *tubes.Reliable
			want []byte
			name string
		}{{relPeer, m1, "survivor"}, {freshPeer.(*tubes.Reliable), m2, "fresh"}} {
			got := make([]byte, len(e.want))
			e.t.SetReadDeadline(time.Now().Add(time.Minute))
			n, err := io.ReadFull(e.t, got)
			if !bytes.Equal(got[:n], e.want[:n]) {
				c.Violate("C09:stream-delivers:bytes-of-another-tube:neighbour-reaped", map[string]any{"on": e.name, "id": id, "read": n, "head": vh.HexCap(got[:n], 16)})
				return
			}
			if err != nil {
				c.Violate("C09:stream-breaks:neighbour-reaped", map[string]any{"on": e.name, "id": id, "read": n, "err": err.Error()})
				return
			}
			r.Count("stream_bytes_read_and_checked", int64(n))
		}
	}
	r.Count("evaluations", 3)
	r.Count("same_id_neighbour_closed_and_forgotten", 1)
	r.Nontrivial(fmt.Sprintf("neighbour|%d|%d|%v", i, id, closeReliable))
}

// oversizeRun: single messages around and above what one frame and one
// transport message can carry (32768, 65535 and 65536+k bytes) are written on
// an unreliable tube over a network that, like a real transport connection,
// refuses messages above transport.MaxPlaintextSize. The write may fail and the
// message may be lost - the muxer may even stop - but whatever the other end
// reads is one of the messages written, whole.
func oversizeRun(r *vh.Runner, c *vh.Case, i int) {
	rng := vh.NewRand(r.Seed, "c09-oversize", i)
	mp := newMuxPair(2 * time.Hour)
	defer mp.stop()
	mp.net.A.LimitWrites(transport.MaxPlaintextSize)
	mp.net.B.LimitWrites(transport.MaxPlaintextSize)
	w, rd := mp.a, mp.b
	if rng.Bool() {
		w, rd = mp.b, mp.a
	}
	var acc []accepted
	var amu sync.Mutex
	go acceptLoop(rd, &acc, &amu)
	cr, err := w.CreateUnreliableTube(tubes.TubeType(rng.Intn(256)))
	if err != nil {
		c.Violate("C09:create-fails:oversize-message", map[string]any{"err": err.Error()})
		return
	}
	bub.Settle(time.Second)
	amu.Lock()
	if len(acc) != 1 || acc[0].reliable {
		amu.Unlock()
		c.Violate("C09:opened-tube-never-offered-or-offered-with-other-type:oversize-message", map[string]any{"offered": len(acc)})
		return
	}
	ac := acc[0].tube.(*tubes.Unreliable)
	amu.Unlock()
	key := rng.U64()
	big := []int{32768, 32769, 65535, 65536, 65537, 65536 + 100, 65536 + 1400, 65536 + 9000, 65536 + 32768, 65536 + 32769, 131072, 131072 + 5}
	sizes := []int{100, 1400}
	first := i % len(big)
	sizes = append(sizes, big[first]-16, 300, big[rng.Intn(len(big))]-16, 1)
	want := map[string]bool{}
	api := rng.Intn(3)
	for k, n := range sizes {
		if n < 0 {
			n = 0
		}
		m := umsg(key, i, k, n)
		want[string(m)] = true
		switch api {
		case 0:
			err = cr.WriteMsg(m)
		case 1:
			_, err = cr.Write(m)
		default:
			_, _, err = cr.WriteMsgUDP(m, nil, nil)
		}
		r.Count("oversize_family_writes", 1)
		if err != nil {
			r.Count("oversize_family_writes_refused", 1)
		}
	}
	buf := make([]byte, 1<<18)
	got := 0
	for {
		ac.SetReadDeadline(time.Now().Add(500 * time.Millisecond))
		n, err := ac.ReadMsg(buf)
		if err != nil {
			break
		}
		if !want[string(buf[:n])] {
			src := "not-a-written-message"
			if n >= 8 && bytes.Equal(buf[:4], []byte("UMSG")) {
				src = "altered-or-fragmented-message"
			} else if n == 0 {
				src = "zero-length-message-nobody-wrote"
			}
			c.Violate("C09:unreliable-delivers:"+src+":oversize-message", map[string]any{"len": n, "head": vh.HexCap(buf[:n], 16), "sizes": sizes})
			return
		}
		delete(want, string(buf[:n])) // each written message at most once
		got++
		r.Count("unreliable_messages_checked", 1)
	}
	r.Count("evaluations", int64(len(sizes)))
	if got >= 2 { // the two small messages written first arrived: the tube worked
		r.Nontrivial(fmt.Sprintf("oversize|%d|%d|%d", i, first, api))
	}
}

type c09 struct {
	r    *vh.Runner
	c    *vh.Case
	rng  *vh.Rand
	mp   *muxPair
	seed uint64
	mu   sync.Mutex
	all  []*instance
	// adversary state
	held    [2][][]byte // stale copies per direction (frames of generation-1 instances)
	heldReq [2][][]byte
	mode    string
	stats   map[string]int
	relDone chan struct{}
}

func (x *c09) count(k string) { x.mu.Lock(); x.stats[k]++; x.mu.Unlock() }

// acceptLoop collects everything a muxer offers until stopped.
func acceptLoop(m *tubes.Muxer, out *[]accepted, mu *sync.Mutex) {
	for {
		t, err := m.Accept()
		if err != nil {
			return
		}
		mu.Lock()
		*out = append(*out, accepted{t.GetID(), t.IsReliable(), t.Type(), t})
		mu.Unlock()
	}
}

// classifyForeign: where do bytes that are not the instance's own come from?
func (x *c09) classifyForeign(inst *instance, got []byte) string {
	probe := got
	if len(probe) > 12 {
		probe = probe[:12]
	}
	if len(probe) < 6 {
		return "unknown-bytes"
	}
	x.mu.Lock()
	defer x.mu.Unlock()
	for _, o := range x.all {
		if o == inst || !o.reliable {
			continue
		}
		for off := int64(0); off+int64(len(probe)) <= o.total; off++ {
			if matches(o.key, off, probe) {
				switch {
				case o.id == inst.id && o.creator == inst.creator && o.gen < inst.gen:
					return "predecessor-same-id"
				case o.id == inst.id && o.creator == inst.creator:
					return "successor-same-id"
				default:
					return "other-tube"
				}
			}
		}
	}
	return "unknown-bytes"
}

func isolationRun(r *vh.Runner, c *vh.Case, i int) {
	rng := vh.NewRand(r.Seed, "c09", i)
	x := &c09{r: r, c: c, rng: rng, mp: newMuxPair(2 * time.Hour), seed: r.Seed ^ uint64(i)<<24, stats: map[string]int{}}
	defer x.mp.stop()
	var accA, accB []accepted
	var amu sync.Mutex
	go acceptLoop(x.mp.a, &accA, &amu)
	go acceptLoop(x.mp.b, &accB, &amu)
	staleMode := []string{"none", "within-reaper-window", "beyond-reaper-window", "beyond-reaper-window"}[rng.Intn(4)]
	x.mode = staleMode
	var pmu sync.Mutex
	captureGen := 1
	reorder := rng.Chance(0.6)
	dupInit := rng.Chance(0.6)
	// light loss of reliable data frames in some runs: retransmissions and the
	// acknowledgements they provoke are traffic of their own
	lossy := rng.Chance(0.4)
	x.mp.net.SetPolicy(func(dir, seq int, data []byte) []msgnet.Delivery {
		pmu.Lock()
		defer pmu.Unlock()
		h := parseHdr(data)
		if lossy && h.ok && !h.initFrame && h.rel && h.dataLen > 0 && rng.Chance(0.08) {
			x.count("reliable-data-frames-lost")
			return nil
		}
		out := []msgnet.Delivery{{Data: data}}
		if reorder && rng.Chance(0.3) {
			out[0].Delay = time.Duration(rng.Intn(20)) * time.Millisecond
		}
		if h.ok && h.initFrame && dupInit && rng.Chance(0.5) {
			// duplicated initiation frames while the tube is alive
			out = append(out, msgnet.Delivery{Data: data, Delay: time.Duration(rng.Intn(30)) * time.Millisecond})
			x.count("init-frames-duplicated")
		}
		if captureGen == 1 && h.ok && staleMode != "none" {
			x.mu.Lock()
			if h.initFrame && h.req && len(x.heldReq[dir]) < 6 {
				x.heldReq[dir] = append(x.heldReq[dir], data)
			} else if !h.initFrame && (h.dataLen > 0 || h.fin) && len(x.held[dir]) < 40 && rng.Chance(0.5) {
				x.held[dir] = append(x.held[dir], data)
			}
			x.mu.Unlock()
		}
		return out
	})

	nPer := 1 + rng.Intn(6)
	if rng.Chance(0.15) {
		nPer = 12 + rng.Intn(9) // up to 40 tubes in total
	}
	uid := 0
	runGeneration := func(gen int, releaseStaleDuring bool) bool {
		var insts []*instance
		for side := 0; side < 2; side++ {
			for k := 0; k < nPer; k++ {
				uid++
				inst := &instance{uid: uid, gen: gen, creator: side, reliable: rng.Chance(0.65), ttype: tubes.TubeType(byte(uid*73 + 11))}
				inst.key = streamKey(x.seed, uid, 0)
				if inst.reliable {
					inst.total = []int64{1, 500, 5000, 40000, 120000}[rng.Intn(5)]
				} else {
					inst.nmsgs = 1 + rng.Intn(12)
				}
				insts = append(insts, inst)
			}
		}
		x.mu.Lock()
		x.all = append(x.all, insts...)
		x.mu.Unlock()
		// concurrent creation from both sides
		var wg sync.WaitGroup
		for _, inst := range insts {
			wg.Add(1)
			go func(inst *instance) {
				defer wg.Done()
				m := x.mp.a
				if inst.creator == 1 {
					m = x.mp.b
				}
				var t tubes.Tube
				var err error
				if inst.reliable {
					var rt *tubes.Reliable
					rt, err = m.CreateReliableTube(inst.ttype)
					if err == nil {
						t = rt
					}
				} else {
					var ut *tubes.Unreliable
					ut, err = m.CreateUnreliableTube(inst.ttype)
					if err == nil {
						t = ut
					}
				}
				if err != nil {
					c.Violate("C09:create-fails", map[string]any{"err": err.Error(), "uid": inst.uid})
					return
				}
				inst.cr, inst.id, inst.createOK = t, t.GetID(), true
			}(inst)
		}
		if !bub.Within(bub.Go(wg.Wait), time.Minute) {
			c.Violate("C09:create-does-not-return", map[string]any{"generation": gen})
			return false
		}
		if c.Violated() {
			return false
		}
		// ids pairwise distinct among the live tubes of one creator and kind
		seen := map[string]int{}
		for _, inst := range insts {
			k := fmt.Sprintf("%d/%v/%d", inst.creator, inst.reliable, inst.id)
			if o, dup := seen[k]; dup {
				c.Violate("C09:two-live-tubes-share-an-id", map[string]any{"creator": inst.creator, "reliable": inst.reliable, "id": inst.id, "uids": []int{o, inst.uid}})
				return false
			}
			seen[k] = inst.uid
		}
		// match with what the peer's Accept offered (by id+kind among not yet matched offers)
		bub.Settle(1500 * time.Millisecond)
		amu.Lock()
		for _, inst := range insts {
			list := &accB
			if inst.creator == 1 {
				list = &accA
			}
			n := 0
			for j := range *list {
				a := &(*list)[j]
				if a.tube != nil && a.id == inst.id && a.reliable == inst.reliable && a.ttype == inst.ttype {
					if n == 0 {
						inst.ac = a.tube
					}
					a.tube = nil // consumed
					n++
				}
			}
			if n == 0 {
				amu.Unlock()
				var il []string
				for _, o := range insts {
					il = append(il, fmt.Sprintf("uid=%d creator=%d id=%d rel=%v type=%d matched=%v", o.uid, o.creator, o.id, o.reliable, o.ttype, o.ac != nil))
				}
				c.Violate("C09:opened-tube-never-offered-or-offered-with-other-type:"+x.mode, map[string]any{"uid": inst.uid, "id": inst.id, "reliable": inst.reliable, "type": inst.ttype, "creator": inst.creator,
					"generation": gen, "stale_mode": x.mode, "unmatched_offers": describe(*list), "instances": il})
				return false
			}
			if n > 1 {
				amu.Unlock()
				c.Violate("C09:tube-offered-twice:while-open", map[string]any{"uid": inst.uid, "id": inst.id, "times": n})
				return false
			}
		}
		// anything offered that nobody created?
		for _, list := range []*[]accepted{&accA, &accB} {
			for j := range *list {
				if a := (*list)[j]; a.tube != nil {
					(*list)[j].tube = nil
					amu.Unlock()
					c.Violate("C09:tube-offered-that-was-never-opened:"+x.mode, map[string]any{"id": a.id, "reliable": a.reliable, "type": a.ttype, "generation": gen})
					return false
				}
			}
		}
		amu.Unlock()
		x.r.Count("tubes_opened_and_matched", int64(len(insts)))

		// traffic on every instance, with per-instance monitors
		// unreliable instances stay open until the reliable ones of the
		// generation are through (their retransmissions and the extra
		// acknowledgements these provoke are traffic that could go astray)
		relDone := make(chan struct{})
		var rw sync.WaitGroup
		x.mu.Lock()
		x.relDone = relDone
		x.mu.Unlock()
		var tw sync.WaitGroup
		for _, inst := range insts {
			tw.Add(1)
			if inst.reliable {
				rw.Add(1)
			}
			go func(inst *instance) {
				defer tw.Done()
				if inst.reliable {
					defer rw.Done()
				}
				x.traffic(inst)
			}(inst)
		}
		go func() { rw.Wait(); close(relDone) }()
		if releaseStaleDuring {
			// frames of the previous generation arrive while the successors carry data
			time.Sleep(time.Duration(rng.Intn(40)) * time.Millisecond)
			x.releaseStale("beyond-reaper-window")
		}
		if !bub.Within(bub.Go(tw.Wait), 10*time.Minute) {
			if !c.Violated() {
				c.Violate("C09:traffic-does-not-finish:"+x.mode, map[string]any{"generation": gen, "stale_mode": x.mode})
			}
			return false
		}
		if c.Violated() {
			return false
		}
		x.r.NontrivialN(int64(len(insts))) // instances opened, matched and carrying checked data (unique per case and uid)
		// close everything from both ends
		var cw sync.WaitGroup
		for _, inst := range insts {
			for _, t := range []tubes.Tube{inst.cr, inst.ac} {
				cw.Add(1)
				go func(t tubes.Tube) {
					defer cw.Done()
					t.Close()
					t.WaitForClose()
				}(t)
			}
		}
		if !bub.Within(bub.Go(cw.Wait), 5*time.Minute) {
			c.Inconclusive("tubes did not close within 5 virtual minutes (C16 judges shutdown)")
			return false
		}
		return true
	}

	if !runGeneration(1, false) {
		return
	}
	pmu.Lock()
	captureGen = 2
	pmu.Unlock()
	if staleMode == "within-reaper-window" {
		// Frames of the closed instances are still in flight (delays of 0-15 ms,
		// below the smallest possible reaper delay of 4 x minRTT = 20 ms) while
		// the application reopens at once: the muxer must not hand out an id
		// whose previous holder may still have frames on the wire.
		x.releaseStale("within-reaper-window")
	} else {
		// wait out the reaper delay (4 x RTT <= 1.4 s) so that ids are reused
		bub.Settle(3 * time.Second)
	}
	if staleMode == "beyond-reaper-window" && rng.Bool() {
		// late duplicate REQs of closed tubes, before the successors exist
		x.releaseReq()
		bub.Settle(50 * time.Millisecond)
	}
	if !runGeneration(2, staleMode == "beyond-reaper-window") {
		return
	}
	bub.Settle(100 * time.Millisecond)
	amu.Lock()
	for _, list := range []*[]accepted{&accA, &accB} {
		for _, a := range *list {
			if a.tube != nil {
				amu.Unlock()
				c.Violate("C09:tube-offered-that-was-never-opened:"+x.mode, map[string]any{"id": a.id, "reliable": a.reliable, "type": a.ttype, "generation": "end"})
				return
			}
		}
	}
	amu.Unlock()
	r.Count("evaluations", int64(uid))
	r.Count("stale_mode:"+staleMode, 1)
	x.mu.Lock()
	statsCopy := map[string]int{}
	for k, v := range x.stats {
		statsCopy[k] = v
	}
	x.mu.Unlock()
	for k, v := range statsCopy {
		r.Count(k, int64(v))
	}
	if i < 3 {
		r.Sample(map[string]any{"kind": "isolation-run", "tubes_per_side_and_generation": nPer, "stale_mode": staleMode, "reorder": reorder, "dup_init": dupInit, "stats": statsCopy})
	}
}

func describe(l []accepted) []string {
	var out []string
	for _, a := range l {
		if a.tube != nil {
			out = append(out, fmt.Sprintf("id=%d rel=%v type=%d", a.id, a.reliable, a.ttype))
		}
	}
	sort.Strings(out)
	return out
}

func (x *c09) releaseStale(tag string) {
	x.mu.Lock()
	held := x.held
	x.mu.Unlock()
	for dir := 0; dir < 2; dir++ {
		for _, f := range held[dir] {
			x.mp.net.Inject(dir, f, time.Duration(x.rng.Intn(15))*time.Millisecond)
			x.count("stale-frames-released:" + tag)
		}
	}
}

func (x *c09) releaseReq() {
	x.mu.Lock()
	heldReq := x.heldReq
	x.mu.Unlock()
	for dir := 0; dir < 2; dir++ {
		for _, f := range heldReq[dir] {
			x.mp.net.Inject(dir, f, 0)
			x.count("stale-REQ-released")
		}
	}
}

// traffic drives one instance creator->acceptor and checks what the acceptor reads.
func (x *c09) traffic(inst *instance) {
	c := x.c
	if inst.reliable {
		cr, ac := inst.cr.(*tubes.Reliable), inst.ac.(*tubes.Reliable)
		go func() {
			b := make([]byte, inst.total)
			fill(inst.key, 0, b)
			cr.Write(b)
		}()
		buf := make([]byte, 32*1024)
		pos := int64(0)
		ac.SetReadDeadline(time.Now().Add(8 * time.Minute))
		for pos < inst.total {
			n, err := ac.Read(buf)
			if n > 0 {
				if pos+int64(n) > inst.total || !matches(inst.key, pos, buf[:n]) {
					bad := 0
					for bad < n && pos+int64(bad) < inst.total && matches(inst.key, pos+int64(bad), buf[bad:bad+1]) {
						bad++
					}
					src := x.classifyForeign(inst, buf[bad:n])
					c.Violate(fmt.Sprintf("C09:foreign-bytes-read:%s:%s", src, x.mode), map[string]any{"uid": inst.uid, "id": inst.id, "generation": inst.gen, "stream_offset": pos + int64(bad),
						"source": src, "stale_mode": x.mode, "got": vh.HexCap(buf[bad:n], 16)})
					return
				}
				pos += int64(n)
				x.r.Count("stream_bytes_read_and_checked", int64(n))
			}
			if err != nil {
				if !c.Violated() {
					c.Violate(fmt.Sprintf("C09:stream-breaks:%s", x.mode), map[string]any{"uid": inst.uid, "id": inst.id, "generation": inst.gen, "read": pos, "total": inst.total, "err": err.Error(), "stale_mode": x.mode})
				}
				return
			}
		}
		return
	}
	cr, ac := inst.cr.(*tubes.Unreliable), inst.ac.(*tubes.Unreliable)
	want := map[string]bool{}
	for k := 0; k < inst.nmsgs; k++ {
		m := umsg(inst.key, inst.uid, k, []int{0, 1, 100, 1400, 9000}[(inst.uid+k)%5])
		want[string(m)] = true
		if err := cr.WriteMsg(m); err != nil {
			c.Violate("C09:unreliable-write-fails", map[string]any{"uid": inst.uid, "err": err.Error()})
			return
		}
	}
	buf := make([]byte, 70000)
	got := 0
	for got < inst.nmsgs {
		ac.SetReadDeadline(time.Now().Add(2 * time.Second))
		n, err := ac.ReadMsg(buf)
		if err != nil {
			if errors.Is(err, io.EOF) && !x.c.Violated() {
				c.Violate("C09:unreliable-tube-ends-early:"+x.mode, map[string]any{"uid": inst.uid, "got": got, "of": inst.nmsgs})
			}
			break // loss / time-out is allowed for unreliable tubes
		}
		if !want[string(buf[:n])] {
			src := "not-a-written-message"
			if n >= 8 && bytes.Equal(buf[:4], []byte("UMSG")) {
				if int(binary.BigEndian.Uint32(buf[4:8])) != inst.uid {
					src = "message-of-another-instance"
				} else {
					src = "altered-or-fragmented-message"
				}
			} else if n == 0 {
				src = "zero-length-message-nobody-wrote"
			}
			c.Violate("C09:unreliable-delivers:"+src+":"+x.mode, map[string]any{"uid": inst.uid, "id": inst.id, "generation": inst.gen, "len": n, "head": vh.HexCap(buf[:n], 16), "stale_mode": x.mode})
			return
		}
		got++
		x.r.Count("unreliable_messages_checked", 1)
	}
	x.mu.Lock()
	relDone := x.relDone
	x.mu.Unlock()
	if relDone != nil {
		select {
		case <-relDone:
			time.Sleep(20 * time.Millisecond)
		case <-time.After(9 * time.Minute):
		}
	}
	// nobody writes towards the creator's end: whatever can be read there came
	// from somewhere else
	for {
		cr.SetReadDeadline(time.Now().Add(time.Millisecond))
		n, err := cr.ReadMsg(buf)
		if err != nil {
			break
		}
		c.Violate("C09:unreliable-delivers:message-on-the-end-nobody-writes-to:"+x.mode, map[string]any{"uid": inst.uid, "id": inst.id, "generation": inst.gen, "len": n, "head": vh.HexCap(buf[:n], 16), "stale_mode": x.mode})
		return
	}
	cr.SetReadDeadline(time.Time{})
	// the creator closes; the acceptor must see nothing but the written
	// messages (lost ones may be missing) and then end-of-stream or silence
	cr.Close()
	for {
		ac.SetReadDeadline(time.Now().Add(500 * time.Millisecond))
		n, err := ac.ReadMsg(buf)
		if err != nil {
			break
		}
		if !want[string(buf[:n])] {
			src := "not-a-written-message"
			if n == 0 {
				src = "zero-length-message-nobody-wrote"
			}
			c.Violate("C09:unreliable-delivers:"+src+":after-close:"+x.mode, map[string]any{"uid": inst.uid, "id": inst.id, "generation": inst.gen, "len": n, "stale_mode": x.mode})
			return
		}
	}
	ac.SetReadDeadline(time.Time{})
}

// exhaustionRun: open tubes until the id space is exhausted on both sides and
// kinds; ids must stay distinct, the 129th must fail with ErrOutOfTubes.
// lateFarFrameRun: a long-lived reliable tube sends well over a thousand
// frames; copies of some of its late data frames (numbers far beyond the
// 1000-frame receive window of a fresh tube) stay in the network. After both
// ends have closed and the id quarantine is over, a new reliable tube takes
// the same id, the old copies arrive, and the new tube then carries a stream
// long enough to reach those frame numbers. Unlike a stale frame whose number
// falls inside the successor's window (known finding: frames carry no tube
// incarnation), these frames are outside everything the successor may accept:
// its stream must arrive unaltered.
func lateFarFrameRun(r *vh.Runner, c *vh.Case, i int) {
	rng := vh.NewRand(r.Seed, "c09-far", i)
	mp := newMuxPair(2 * time.Hour)
	defer mp.stop()
	acc := make(chan tubes.Tube, 8)
	go func() {
		for {
			t, err := mp.b.Accept()
			if err != nil {
				return
			}
			acc <- t
		}
	}()
	var mu sync.Mutex
	var held [][]byte
	capture := true
	lo := uint32(1100 + rng.Intn(200))
	hi := lo + uint32(50+rng.Intn(300))
	mp.net.SetPolicy(func(dir, seq int, data []byte) []msgnet.Delivery {
		h := parseHdr(data)
		mu.Lock()
		if capture && dir == 0 && h.ok && !h.initFrame && h.rel && h.dataLen > 0 && h.frameNo >= lo && h.frameNo < hi && len(held) < 400 {
			held = append(held, append([]byte(nil), data...))
		}
		mu.Unlock()
		return []msgnet.Delivery{{Data: data}}
	})
	chunk := 4 + rng.Intn(24)
	run := func(gen int, frames int) (byte, bool) {
		a, err := mp.a.CreateReliableTube(7)
		if err != nil {
			c.Inconclusive("create: " + err.Error())
			return 0, false
		}
		var b tubes.Tube
		select {
		case b = <-acc:
		case <-time.After(10 * time.Second):
			c.Inconclusive("accept timed out")
			return 0, false
		}
		if gen == 2 {
			// the old copies arrive now, before the successor has carried anything
			mu.Lock()
			for _, f := range held {
				mp.net.Inject(0, f, time.Duration(rng.Intn(3))*time.Millisecond)
			}
			mu.Unlock()
			bub.Settle(20 * time.Millisecond)
		}
		key := streamKey(r.Seed^uint64(i)<<20, gen, 0)
		total := int64(frames * chunk)
		wdone := bub.Go(func() {
			buf := make([]byte, chunk)
			for off := int64(0); off < total; off += int64(chunk) {
				fill(key, off, buf)
				if _, err := a.Write(buf); err != nil {
					return
				}
			}
		})
		got := int64(0)
		bad := ""
		rdone := bub.Go(func() {
			buf := make([]byte, 4096)
			for got < total {
				n, err := b.Read(buf)
				if n > 0 {
					if bad == "" && !matches(key, got, buf[:n]) {
						bad = fmt.Sprintf("bytes at offset %d differ from what generation %d wrote", got, gen)
						if matches(streamKey(r.Seed^uint64(i)<<20, 1, 0), int64(int(lo-1)*chunk), buf[:min(n, chunk)]) || gen == 2 {
							bad += " (generation 1 data is in flight)"
						}
					}
					got += int64(n)
				}
				if err != nil {
					return
				}
			}
		})
		okW := bub.Within(wdone, 10*time.Minute)
		okR := bub.Within(rdone, 10*time.Minute)
		r.Count("evaluations", 1)
		if gen == 2 {
			detail := map[string]any{"id": a.GetID(), "stale_frames_delivered": len(held), "stale_frame_numbers": []uint32{lo, hi - 1}, "successor_frames": frames,
				"bytes_read": got, "bytes_expected": total, "writer_done": okW, "reader_done": okR, "mismatch": bad}
			if bad != "" {
				c.Violate("C09:successor-stream-altered:stale-frames-beyond-its-receive-window", detail)
			} else if !okW || !okR || got != total {
				c.Violate("C09:successor-stream-stalls:stale-frames-beyond-its-receive-window", detail)
			}
		} else if !okW || !okR || got != total || bad != "" {
			c.Inconclusive(fmt.Sprintf("predecessor stream did not complete: %d of %d, %s", got, total, bad))
			return 0, false
		}
		id := a.GetID()
		cdone := bub.Go(func() { a.Close(); b.Close(); a.WaitForClose(); b.WaitForClose() })
		if !bub.Within(cdone, time.Minute) {
			c.Inconclusive("close did not complete")
			return id, false
		}
		return id, !c.Violated()
	}
	id1, ok := run(1, int(hi)+50+rng.Intn(200))
	if !ok {
		return
	}
	mu.Lock()
	capture = false
	nheld := len(held)
	mu.Unlock()
	if nheld == 0 {
		c.Inconclusive("no late frames captured")
		return
	}
	time.Sleep(5*time.Second + time.Duration(rng.Intn(5000))*time.Millisecond) // id quarantine (4 x RTT) is over
	id2, ok := run(2, int(hi)+100+rng.Intn(400))
	if id2 != id1 {
		r.Count("successor_took_another_id", 1)
		return
	}
	if ok {
		r.Count("stale_far_frames_delivered_to_successor", int64(nheld))
		r.Nontrivial(fmt.Sprintf("far|%d|%d|%d", i, lo, chunk))
	}
}

func exhaustionRun(r *vh.Runner, c *vh.Case, i int) {
	rng := vh.NewRand(r.Seed, "c09-exh", i)
	mp := newMuxPair(2 * time.Hour)
	defer mp.stop()
	var accA, accB []accepted
	var amu sync.Mutex
	go acceptLoop(mp.a, &accA, &amu)
	go acceptLoop(mp.b, &accB, &amu)
	reliable := rng.Bool()
	m := mp.a
	parity := byte(1)
	if rng.Bool() {
		m, parity = mp.b, 0
	}
	seen := map[byte]bool{}
	var opened []tubes.Tube
	for k := 0; k < 128; k++ {
		var t tubes.Tube
		var err error
		if reliable {
			var rt *tubes.Reliable
			rt, err = m.CreateReliableTube(tubes.TubeType(k))
			t = rt
		} else {
			var ut *tubes.Unreliable
			ut, err = m.CreateUnreliableTube(tubes.TubeType(k))
			t = ut
		}
		if err != nil {
			c.Violate("C09:create-fails-before-exhaustion", map[string]any{"k": k, "err": err.Error()})
			return
		}
		if seen[t.GetID()] || t.GetID()%2 != parity {
			c.Violate("C09:two-live-tubes-share-an-id", map[string]any{"id": t.GetID(), "k": k, "reliable": reliable})
			return
		}
		seen[t.GetID()] = true
		opened = append(opened, t)
		if k%16 == 15 {
			bub.Settle(400 * time.Millisecond) // let the acceptor's queue (128) drain through Accept
		}
	}
	var err error
	if reliable {
		_, err = m.CreateReliableTube(200)
	} else {
		_, err = m.CreateUnreliableTube(200)
	}
	if !errors.Is(err, tubes.ErrOutOfTubes) {
		c.Violate("C09:id-space-exhaustion-not-reported", map[string]any{"err": fmt.Sprint(err), "reliable": reliable})
		return
	}
	bub.Settle(2 * time.Second)
	amu.Lock()
	n := len(accA) + len(accB)
	amu.Unlock()
	if n != 128 {
		c.Violate("C09:accept-count-differs-from-opened", map[string]any{"offered": n, "opened": 128, "reliable": reliable})
		return
	}
	r.Count("evaluations", 129)
	r.Count("tubes_opened_and_matched", 128)
	r.Nontrivial(fmt.Sprintf("exh|%d|%v|%d", i, reliable, parity))
	_ = opened
}

// backlogRun: more tubes are requested than the acceptor's backlog holds
// before anybody accepts; once the acceptor starts, every tube whose creation
// succeeded is offered exactly once with its id, kind and type, and carries
// data.
func backlogRun(r *vh.Runner, c *vh.Case, i int) {
	rng := vh.NewRand(r.Seed, "c09-backlog", i)
	mp := newMuxPair(2 * time.Hour)
	defer mp.stop()
	nRel, nUnrel := 100+rng.Intn(29), 10+rng.Intn(60) // together more than the backlog of 128
	type opened struct {
		t        tubes.Tube
		reliable bool
		ttype    tubes.TubeType
	}
	var mu sync.Mutex
	var made []opened
	var wg sync.WaitGroup
	for k := 0; k < nRel+nUnrel; k++ {
		wg.Add(1)
		rel := k < nRel
		tt := tubes.TubeType(byte(k*7 + 3))
		go func() {
			defer wg.Done()
			var t tubes.Tube
			var err error
			if rel {
				var x *tubes.Reliable
				x, err = mp.a.CreateReliableTube(tt)
				t = x
			} else {
				var x *tubes.Unreliable
				x, err = mp.a.CreateUnreliableTube(tt)
				t = x
			}
			if err == nil {
				mu.Lock()
				made = append(made, opened{t, rel, tt})
				mu.Unlock()
			}
		}()
	}
	time.Sleep(time.Duration(rng.Pick(100, 1000, 3000)) * time.Millisecond)
	var acc []accepted
	var amu sync.Mutex
	go acceptLoop(mp.b, &acc, &amu)
	if !bub.Within(bub.Go(wg.Wait), 2*time.Minute) {
		c.Violate("C09:create-does-not-return", map[string]any{"family": "accept-backlog"})
		return
	}
	bub.Settle(3 * time.Second)
	mu.Lock()
	amu.Lock()
	defer mu.Unlock()
	defer amu.Unlock()
	r.Count("evaluations", int64(len(made)))
	r.Count("tubes_opened_against_a_full_backlog", int64(len(made)))
	r.NontrivialN(int64(len(made)))
	offered := map[string]int{}
	for _, a := range acc {
		offered[fmt.Sprintf("%v/%d/%d", a.reliable, a.id, a.ttype)]++
	}
	for _, o := range made {
		k := fmt.Sprintf("%v/%d/%d", o.reliable, o.t.GetID(), o.ttype)
		switch offered[k] {
		case 1:
		case 0:
			c.Violate("C09:opened-tube-never-offered-or-offered-with-other-type:accept-backlog", map[string]any{"id": o.t.GetID(), "reliable": o.reliable, "type": o.ttype, "opened": len(made), "offered": len(acc)})
			return
		default:
			c.Violate("C09:tube-offered-twice:accept-backlog", map[string]any{"id": o.t.GetID(), "reliable": o.reliable, "times": offered[k]})
			return
		}
	}
	if len(acc) > len(made) {
		c.Violate("C09:tube-offered-that-was-never-opened:accept-backlog", map[string]any{"opened": len(made), "offered": len(acc)})
	}
}
