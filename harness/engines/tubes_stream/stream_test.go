// Engine tubes_stream: C08 (reliable tubes deliver the written byte stream in
// order, intact and complete) and C09 (tubes are isolated from each other and
// from earlier tubes with the same id). Two real tubes.Muxer instances over a
// simulated message connection with an adversary, inside synctest bubbles,
// built with the race detector.
package tubes_stream

import (
	"errors"
	"fmt"
	"io"
	"sync"
	"testing"
	"time"

	"github.com/sirupsen/logrus"

	"hop.computer/hop/tubes"

	"verif/harness/bub"
	"verif/harness/msgnet"
	"verif/harness/perturb"
	"verif/harness/vh"
)

func TestEngine(t *testing.T) {
	vh.Main(t, map[string]func(*vh.Runner){"C08": genC08, "C09": genC09})
}

// ---------------------------------------------------------------------------
// keyed streams: byte i of stream `key` is a pure function of (key, i)

func mix(z uint64) uint64 {
	z += 0x9E3779B97F4A7C15
	z = (z ^ (z >> 30)) * 0xBF58476D1CE4E5B9
	z = (z ^ (z >> 27)) * 0x94D049BB133111EB
	return z ^ (z >> 31)
}

func streamKey(seed uint64, uid int, dir int) uint64 {
	return mix(seed ^ mix(uint64(uid)*2+uint64(dir)+1))
}

func fill(key uint64, off int64, b []byte) {
	for i := range b {
		o := off + int64(i)
		b[i] = byte(mix(key+uint64(o>>3)) >> (8 * uint(o&7)))
	}
}

func matches(key uint64, off int64, b []byte) bool {
	for i := range b {
		o := off + int64(i)
		if b[i] != byte(mix(key+uint64(o>>3))>>(8*uint(o&7))) {
			return false
		}
	}
	return true
}

func quietLog() *logrus.Entry {
	l := logrus.New()
	l.SetOutput(io.Discard)
	l.SetLevel(logrus.PanicLevel)
	return logrus.NewEntry(l)
}

// ---------------------------------------------------------------------------
// fault schedules

type outage struct {
	Start time.Duration `json:"start_ms"`
	Dur   time.Duration `json:"dur_ms"`
}

type schedule struct {
	Class    string        `json:"class"`
	Loss     [2]float64    `json:"loss"`
	Dup      float64       `json:"dup"`
	DelayMax time.Duration `json:"delay_max"`
	Burst    bool          `json:"burst"`
	AckOnly  bool          `json:"ack_only_loss"`  // loss hits only frames without data
	DataOnly bool          `json:"data_only_loss"` // loss hits only frames with data
	Outages  []outage      `json:"outages"`
	Heal     time.Duration `json:"heal"`
}

func genSchedule(rng *vh.Rand) schedule {
	var s schedule
	switch k := rng.Intn(13); {
	case k == 12:
		// a duplicating link that keeps old acknowledgements for a long time:
		// a copy of an early pure acknowledgement arrives again after the
		// stream has moved on by more than a thousand frames (nothing is lost)
		s.Class = "stale-acks"
		s.Heal = time.Hour
	case k == 0:
		s.Class = "faithful"
	case k <= 3:
		s.Class = "iid-loss"
		p := []float64{0.01, 0.05, 0.1, 0.2, 0.3, 0.45, 0.6}[rng.Intn(7)]
		s.Loss = [2]float64{p, p}
		s.Heal = time.Duration(5+rng.Intn(120)) * time.Second
	case k == 4:
		s.Class = "asymmetric-loss"
		s.Loss = [2]float64{[]float64{0, 0.3, 0.5}[rng.Intn(3)], []float64{0.3, 0, 0.5}[rng.Intn(3)]}
		s.AckOnly = rng.Bool()
		s.DataOnly = !s.AckOnly && rng.Bool()
		s.Heal = time.Duration(5+rng.Intn(60)) * time.Second
	case k == 5:
		s.Class = "burst-loss"
		s.Burst = true
		s.Loss = [2]float64{0.3, 0.3}
		s.Heal = time.Duration(5+rng.Intn(60)) * time.Second
	case k == 6:
		s.Class = "dup-reorder"
		s.Dup = 0.3
		s.DelayMax = time.Duration(rng.Pick(1, 20, 100, 500)) * time.Millisecond
		s.Heal = time.Duration(5+rng.Intn(30)) * time.Second
	case k == 7:
		s.Class = "loss-dup-reorder"
		p := []float64{0.05, 0.15, 0.3}[rng.Intn(3)]
		s.Loss = [2]float64{p, p}
		s.Dup = 0.2
		s.DelayMax = time.Duration(rng.Pick(5, 50, 300)) * time.Millisecond
		s.Heal = time.Duration(5+rng.Intn(60)) * time.Second
	default:
		s.Class = "outage"
		n := 1 + rng.Intn(2)
		at := time.Duration(rng.Pick(0, 1, 50, 400, 1000, 3000)) * time.Millisecond
		for i := 0; i < n; i++ {
			d := time.Duration(rng.Pick(100, 1000, 5000, 12000, 25000, 60000, 300000, 1800000)) * time.Millisecond
			s.Outages = append(s.Outages, outage{at, d})
			at += d + time.Duration(rng.Pick(10, 500, 5000))*time.Millisecond
		}
		s.Heal = at
		if rng.Chance(0.3) {
			s.Loss = [2]float64{0.1, 0.1}
			s.Heal = at + time.Duration(rng.Intn(20))*time.Second
		}
	}
	return s
}

// outageClass is the discriminator used in signatures.
func (s schedule) longestOutage() time.Duration {
	var m time.Duration
	for _, o := range s.Outages {
		if o.Dur > m {
			m = o.Dur
		}
	}
	return m
}

// policy turns a schedule into a msgnet policy.
func (s schedule) policy(rng *vh.Rand, start time.Time, stats *netStats) msgnet.Policy {
	var mu sync.Mutex
	burstBad := [2]bool{}
	var oldAcks [2][][]byte
	var dataSeen [2]int
	return func(dir, seq int, data []byte) []msgnet.Delivery {
		mu.Lock()
		defer mu.Unlock()
		t := time.Since(start)
		stats.sent++
		if s.Class == "stale-acks" {
			out := []msgnet.Delivery{{Data: data}}
			hasData := len(data) > 12 && (int(data[2])<<8|int(data[3])) > 0
			pureAck := len(data) >= 12 && data[1]&(1|2) == 0 && data[1]&8 != 0 && data[1]&16 == 0 && !hasData
			if pureAck && len(oldAcks[dir]) < 3 && dataSeen[1-dir] > 20 {
				oldAcks[dir] = append(oldAcks[dir], append([]byte(nil), data...))
			}
			if hasData {
				dataSeen[dir]++
				// the acknowledgements that travel against this data direction
				if n := dataSeen[dir]; n == 1100 || n == 1300 || n == 1700 || n == 2100 {
					for _, a := range oldAcks[1-dir] {
						out = append(out, msgnet.Delivery{Data: a, Dir: msgnet.DirOpposite})
						stats.duplicated++
					}
				}
			}
			return out
		}
		if t >= s.Heal {
			return []msgnet.Delivery{{Data: data}}
		}
		for _, o := range s.Outages {
			if t >= o.Start && t < o.Start+o.Dur {
				stats.dropped++
				return nil
			}
		}
		hasData := len(data) > 12 && (int(data[2])<<8|int(data[3])) > 0
		p := s.Loss[dir]
		if s.AckOnly && hasData || s.DataOnly && !hasData {
			p = 0
		}
		if s.Burst {
			if burstBad[dir] {
				if rng.Chance(0.3) {
					burstBad[dir] = false
				}
			} else if rng.Chance(0.05) {
				burstBad[dir] = true
			}
			if burstBad[dir] {
				p = 0.9
			} else {
				p = 0.01
			}
		}
		if rng.Chance(p) {
			stats.dropped++
			return nil
		}
		var out []msgnet.Delivery
		d := msgnet.Delivery{Data: data}
		if s.DelayMax > 0 && rng.Chance(0.5) {
			d.Delay = time.Duration(rng.Intn(int(s.DelayMax)))
			stats.delayed++
		}
		out = append(out, d)
		if rng.Chance(s.Dup) {
			out = append(out, msgnet.Delivery{Data: data, Delay: time.Duration(rng.Intn(int(s.DelayMax) + 1))})
			stats.duplicated++
		}
		return out
	}
}

type netStats struct{ sent, dropped, delayed, duplicated int }

// ---------------------------------------------------------------------------
// one directional stream and its monitor

type stream struct {
	uid   int
	dir   int // 0: creator->acceptor, 1: acceptor->creator
	key   uint64
	total int64
	sizes []int // write-size sequence (cycled)

	mu       sync.Mutex
	written  int64
	read     int64
	eofAt    int64 // -1: none yet
	readErr  error
	writeErr error
	done     chan struct{} // reader finished (got everything, EOF or error)
}

var writeSizes = []int{1, 2, 100, int(tubes.MaxFrameDataLength) - 1, int(tubes.MaxFrameDataLength), int(tubes.MaxFrameDataLength) + 1, 70000, 200000}

func genSizes(rng *vh.Rand, total int64) []int {
	n := 1 + rng.Intn(5)
	out := make([]int, n)
	for i := range out {
		if rng.Chance(0.7) {
			out[i] = writeSizes[rng.Intn(len(writeSizes))]
		} else {
			out[i] = 1 + rng.Intn(50000)
		}
		// every Write makes at least one frame: keep byte-sized writes for
		// short streams, or one per cycle for long ones
		if out[i] < 100 && total > 4000 && i > 0 {
			out[i] = 100 + rng.Intn(3000)
		}
	}
	if total > 4000 && out[0] < 100 && n == 1 {
		out = append(out, 1000+rng.Intn(40000))
	}
	return out
}

// streamMonitor: online prefix check of everything a reader gets.
type streamMonitor struct {
	c       *vh.Case
	seed    uint64
	mu      sync.Mutex
	streams []*stream // all streams of the case, for classifying foreign bytes
	sched   string
}

func (m *streamMonitor) classify(s *stream, pos int64, got []byte) string {
	// bytes that are not the next bytes of this stream: where do they come from?
	probe := got
	if len(probe) > 16 {
		probe = probe[:16]
	}
	if len(probe) >= 8 {
		for _, o := range m.streams {
			if o == s {
				continue
			}
			lim := o.total
			for off := int64(0); off+int64(len(probe)) <= lim && off < 1<<22; off++ {
				if matches(o.key, off, probe) {
					return fmt.Sprintf("bytes-of-another-stream(uid=%d,dir=%d,off=%d)", o.uid, o.dir, off)
				}
			}
		}
		for off := int64(0); off+int64(len(probe)) <= s.total; off++ {
			if matches(s.key, off, probe) {
				if off < pos {
					return "duplicate-or-replayed-bytes"
				}
				return "bytes-skipped-or-reordered"
			}
		}
	}
	return "corrupted-or-unknown-bytes"
}

// reader consumes a stream end until everything expected arrived (then, if
// expectEOF, until EOF), checking every returned byte.
func (m *streamMonitor) reader(s *stream, conn io.Reader, expectEOF bool, tag string) {
	defer close(s.done)
	buf := make([]byte, 64*1024)
	for {
		s.mu.Lock()
		pos := s.read
		s.mu.Unlock()
		if pos >= s.total && !expectEOF {
			return
		}
		n, err := conn.Read(buf)
		if n > 0 {
			if pos+int64(n) > s.total || !matches(s.key, pos, buf[:n]) {
				// find the first bad byte for the witness
				bad := 0
				for bad < n && pos+int64(bad) < s.total && matches(s.key, pos+int64(bad), buf[bad:bad+1]) {
					bad++
				}
				what := "more-bytes-than-written"
				if pos+int64(bad) < s.total {
					what = m.classify(s, pos+int64(bad), buf[bad:n])
				}
				cls := what
				if i := indexByte(cls, '('); i > 0 {
					cls = cls[:i]
				}
				m.c.Violate("C08:read-returns-wrong-bytes:"+cls, map[string]any{"stream": tag, "uid": s.uid, "dir": s.dir, "stream_offset": pos + int64(bad),
					"read_len": n, "what": what, "got": vh.HexCap(buf[bad:n], 24), "schedule": m.sched})
				s.mu.Lock()
				s.readErr = errors.New("stream check failed")
				s.mu.Unlock()
				return
			}
			s.mu.Lock()
			s.read += int64(n)
			s.mu.Unlock()
		}
		if err != nil {
			s.mu.Lock()
			s.readErr = err
			if errors.Is(err, io.EOF) {
				s.eofAt = s.read
			}
			s.mu.Unlock()
			return
		}
	}
}

func indexByte(s string, c byte) int {
	for i := 0; i < len(s); i++ {
		if s[i] == c {
			return i
		}
	}
	return -1
}

func (s *stream) writer(conn io.Writer) {
	var scratch []byte
	sent := int64(0)
	i := 0
	for sent < s.total {
		n := int64(s.sizes[i%len(s.sizes)])
		i++
		if n > s.total-sent {
			n = s.total - sent
		}
		// one buffer is reused and scribbled over after every Write: io.Writer
		// implementations must not retain the caller's slice
		if int64(cap(scratch)) < n {
			scratch = make([]byte, n)
		}
		b := scratch[:n]
		fill(s.key, sent, b)
		k, err := conn.Write(b)
		for j := range b {
			b[j] = 0xDB
		}
		sent += int64(k)
		s.mu.Lock()
		s.written = sent
		s.mu.Unlock()
		if err != nil {
			s.mu.Lock()
			s.writeErr = err
			s.mu.Unlock()
			return
		}
		if int64(k) != n {
			s.mu.Lock()
			s.writeErr = fmt.Errorf("short write %d of %d", k, n)
			s.mu.Unlock()
			return
		}
	}
}

// ---------------------------------------------------------------------------

type muxPair struct {
	net  *msgnet.Pair
	a, b *tubes.Muxer
}

func newMuxPair(timeout time.Duration) *muxPair {
	p := &muxPair{net: msgnet.NewPair()}
	p.a = tubes.Client(p.net.A, &tubes.Config{Timeout: timeout, Log: quietLog()})
	p.b = tubes.Server(p.net.B, &tubes.Config{Timeout: timeout, Log: quietLog()})
	return p
}

func (p *muxPair) stop() {
	p.net.SetPolicy(nil)
	da := bub.Go(func() { p.a.Stop() })
	db := bub.Go(func() { p.b.Stop() })
	<-da
	<-db
}

var totals = []int64{0, 1, 1000, 32768, 32769, 100000, 250000, 1 << 20}

func genC08(r *vh.Runner) {
	n := r.Pick(320, 40000)
	for i := 0; i < n; i++ {
		r.Case(fmt.Sprintf("stream/%d", i), map[string]any{"case": i}, func(c *vh.Case) {
			c.Bubble(func() { streamRun(r, c, i) })
		})
	}
	coreCases(r)
}

const liveBound = 30 * time.Minute

func streamRun(r *vh.Runner, c *vh.Case, i int) {
	rng := vh.NewRand(r.Seed, "c08", i)
	sched := genSchedule(rng)
	// in half of the cases the instrumented points yield (seeded), so that
	// readers, the muxer's receiver and the senders interleave differently
	if strength := rng.Pick(0, 0, 30, 60); strength > 0 {
		pt := perturb.Install(r.Seed^uint64(i)*613, false, strength)
		defer pt.Remove()
	}
	mp := newMuxPair(3 * time.Hour)
	defer mp.stop()
	mon := &streamMonitor{c: c, seed: r.Seed, sched: sched.Class}
	nTubes := 1 + rng.Intn(3)
	type tubeEnds struct {
		a, b   *tubes.Reliable
		s0, s1 *stream
	}
	var tubesL []*tubeEnds
	// tubes are set up on a faithful network; the schedule starts with the traffic
	for t := 0; t < nTubes; t++ {
		a, err := mp.a.CreateReliableTube(tubes.TubeType(10 + t))
		if err != nil {
			c.Inconclusive("create: " + err.Error())
			return
		}
		acc, err := mp.b.Accept()
		if err != nil {
			c.Inconclusive("accept: " + err.Error())
			return
		}
		b, ok := acc.(*tubes.Reliable)
		if !ok || b.GetID() != a.GetID() {
			c.Inconclusive("accepted an unexpected tube")
			return
		}
		te := &tubeEnds{a: a, b: b}
		te.s0 = &stream{uid: t, dir: 0, key: streamKey(r.Seed^uint64(i)<<20, t, 0), total: totals[rng.Intn(len(totals))], eofAt: -1, done: make(chan struct{})}
		if sched.Class == "stale-acks" {
			te.s0.total = 3 << 20 // more than two thousand frames
		}
		te.s0.sizes = genSizes(rng, te.s0.total)
		t1 := int64(0)
		if rng.Chance(0.5) {
			t1 = totals[rng.Intn(len(totals))]
		}
		te.s1 = &stream{uid: t, dir: 1, key: streamKey(r.Seed^uint64(i)<<20, t, 1), total: t1, sizes: genSizes(rng, t1), eofAt: -1, done: make(chan struct{})}
		mon.streams = append(mon.streams, te.s0, te.s1)
		tubesL = append(tubesL, te)
	}
	// tube ids are handed out per kind: an unreliable tube opened now gets the
	// id of the first reliable one. It lives for a while next to the streams and
	// is then closed and forgotten; the streams must not notice.
	if rng.Chance(0.5) {
		if u, err := mp.a.CreateUnreliableTube(tubes.TubeType(77)); err == nil {
			var ub tubes.Tube
			if acc, err := mp.b.Accept(); err == nil {
				ub = acc
			}
			r.Count("same_id_unreliable_neighbours", 1)
			go func() {
				time.Sleep(time.Duration(rng.Pick(1, 30, 300, 2000)) * time.Millisecond)
				u.Close()
				if ub != nil {
					ub.Close()
				}
			}()
		}
	}
	a0 := time.Now()
	stats := &netStats{}
	mp.net.SetPolicy(sched.policy(rng, a0, stats))
	var wg sync.WaitGroup
	for _, te := range tubesL {
		te := te
		uni := te.s1.total == 0
		// creator side: writes s0, reads s1, closes when both are done
		wg.Add(2)
		go func() {
			defer wg.Done()
			wdone := bub.Go(func() { te.s0.writer(te.a) })
			go mon.reader(te.s1, te.a, false, "acceptor->creator")
			<-wdone
			<-te.s1.done
			te.a.Close()
		}()
		// acceptor side: writes s1, reads s0 (to EOF when unidirectional), then closes
		go func() {
			defer wg.Done()
			wdone := bub.Go(func() { te.s1.writer(te.b) })
			go mon.reader(te.s0, te.b, uni, "creator->acceptor")
			<-wdone
			<-te.s0.done
			te.b.Close()
		}()
	}
	allDone := bub.Go(wg.Wait)
	finished := bub.Within(allDone, sched.Heal+liveBound)
	vt := time.Since(a0)
	r.Count("evaluations", 1)
	r.Count("schedule:"+sched.Class, 1)
	r.Count("virtual_seconds_simulated", int64(vt/time.Second))
	r.Count("frames_sent_on_wire", int64(stats.sent))
	r.Count("frames_dropped_by_adversary", int64(stats.dropped))
	r.Count("frames_duplicated_by_adversary", int64(stats.duplicated))
	r.Count("frames_delayed_by_adversary", int64(stats.delayed))
	var bytesRead int64
	for _, s := range mon.streams {
		s.mu.Lock()
		bytesRead += s.read
		s.mu.Unlock()
	}
	r.Count("stream_bytes_read_and_checked", bytesRead)
	if c.Violated() {
		return
	}
	outCls := "no-outage"
	if lo := sched.longestOutage(); lo > 0 {
		switch {
		case lo <= 5*time.Second:
			outCls = "outage<=5s"
		case lo <= 60*time.Second:
			outCls = "outage<=60s"
		default:
			outCls = "outage>60s"
		}
	}
	for _, te := range tubesL {
		for _, s := range []*stream{te.s0, te.s1} {
			s.mu.Lock()
			read, eofAt, rerr, werr, written := s.read, s.eofAt, s.readErr, s.writeErr, s.written
			s.mu.Unlock()
			wr, rd := te.a, te.b
			if s.dir == 1 {
				wr, rd = te.b, te.a
			}
			wi, ri := wr.VerifInfo(), rd.VerifInfo()
			detail := map[string]any{"schedule": sched, "uid": s.uid, "dir": s.dir, "total": s.total, "written": written, "read": read, "eof_at": eofAt,
				"read_err": fmt.Sprint(rerr), "write_err": fmt.Sprint(werr), "virtual_time": vt.String(), "writer_tube": wi, "reader_tube": ri, "net": *stats}
			if eofAt >= 0 && eofAt < s.total {
				c.Violate("C08:eof-before-all-written-bytes:"+sched.Class, detail)
				return
			}
			if read < s.total {
				// which mechanism gave up?
				mech := "window-stuck"
				switch {
				case werr != nil:
					mech = "write-failed"
				case wi.DupAcks > 100:
					mech = "tube-closed-by-duplicate-ack-limit"
				case ri.RecvNext < wi.NextFrameNo && (wi.FirstUnacked == 0 || ri.RecvNext < wi.FirstUnacked):
					mech = "sender-dropped-unacknowledged-frame"
				case wi.State == 7 || ri.State == 7:
					mech = "tube-closed"
				}
				if !finished || rerr != nil {
					c.Violate(fmt.Sprintf("C08:stream-incomplete-after-heal:%s:%s:%s", mech, sched.Class, outCls), detail)
					return
				}
			}
		}
	}
	if !finished {
		c.Violate("C08:transfer-does-not-terminate-after-heal:"+sched.Class, map[string]any{"schedule": sched, "virtual_time": vt.String()})
		return
	}
	r.Nontrivial(fmt.Sprintf("stream|%d|%s", i, sched.Class))
	if i < 3 {
		r.Sample(map[string]any{"kind": "stream-run", "schedule": sched, "tubes": nTubes, "bytes_checked": bytesRead, "virtual_time": vt.String(), "net": fmt.Sprintf("%+v", *stats)})
	}
}

// ---------------------------------------------------------------------------
// reassembly core, driven directly through the verif accessor

func coreCases(r *vh.Runner) {
	maxLen := r.Pick(7, 8)
	starts := []uint64{1, 1<<32 - 3, 1<<32 - 1, 1 << 32, 5<<32 - 2, 1<<31 - 2}
	for _, st := range starts {
		for first := 0; first < 6; first++ {
			r.Case(fmt.Sprintf("core/start=%d/first=%d", st, first), map[string]any{"start": st, "first": first, "max_len": maxLen}, func(c *vh.Case) {
				coreExhaust(r, c, st, first, maxLen)
			})
		}
	}
	r.Case("core/complete", nil, func(c *vh.Case) { r.Count("exhaustive_spaces_completed", 1) })
	nr := r.Pick(16, 400)
	for i := 0; i < nr; i++ {
		r.Case(fmt.Sprintf("core/random/%d", i), map[string]any{"i": i}, func(c *vh.Case) { coreRandom(r, c, i) })
	}
}

const nData = 5 // data frames 0..4 (numbers start..start+4), index 5 = FIN (number start+5)

func frameData(idx int) []byte {
	b := make([]byte, 3+idx)
	for i := range b {
		b[i] = byte(0x10*(idx+1) + i)
	}
	return b
}

// coreExhaust enumerates every arrival sequence of length <= maxLen over the
// alphabet {data1..data5, FIN} (duplicates included) that begins with `first`.
func coreExhaust(r *vh.Runner, c *vh.Case, start uint64, first, maxLen int) {
	seq := make([]int, 0, maxLen)
	var count, steps int64
	bad := false
	run := func() {
		v := tubes.VerifNewReceiver(start)
		got := map[int]bool{}
		var read []byte // bytes already consumed by nobody: we only look at Buffered
		_ = read
		closedWant := false
		for step, idx := range seq {
			fin := idx == nData
			var data []byte
			if !fin {
				data = frameData(idx)
			}
			finProcessed, _ := v.Receive(uint32(start+uint64(idx)), data, fin, false)
			steps++
			if !closedWant {
				got[idx] = true
			}
			// reference: in-order prefix of distinct frames received
			var want []byte
			m := 0
			for m < nData && got[m] {
				want = append(want, frameData(m)...)
				m++
			}
			nowClosed := m == nData && got[nData]
			if string(v.Buffered()) != string(want) || v.Closed() != nowClosed || finProcessed != (nowClosed && !closedWant) {
				c.Violate("C08:reassembly-core-differs-from-model", map[string]any{"start": start, "arrival_sequence": seq[:step+1], "buffer": vh.Hex(v.Buffered()), "want": vh.Hex(want),
					"closed": v.Closed(), "want_closed": nowClosed, "fin_reported": finProcessed})
				bad = true
				return
			}
			if uint64(v.Ack()) != (start+uint64(m)+b2u(nowClosed))&0xffffffff {
				c.Violate("C08:reassembly-core-ack-differs-from-model", map[string]any{"start": start, "arrival_sequence": seq[:step+1], "ack": v.Ack(), "want": (start + uint64(m) + b2u(nowClosed)) & 0xffffffff})
				bad = true
				return
			}
			closedWant = nowClosed
		}
	}
	var rec func()
	rec = func() {
		if bad {
			return
		}
		count++
		run()
		if len(seq) == maxLen {
			return
		}
		for idx := 0; idx <= nData; idx++ {
			seq = append(seq, idx)
			rec()
			seq = seq[:len(seq)-1]
		}
	}
	seq = append(seq, first)
	rec()
	r.Count("evaluations", steps)
	r.Count("core_sequences_exhaustive", count)
	r.Count("core_steps_compared", steps)
	r.NontrivialN(count)
	if first == 0 && start == 1 {
		r.Sample(map[string]any{"kind": "core-exhaustive", "start": start, "first_frame": first, "sequences": count})
	}
}

func b2u(b bool) uint64 {
	if b {
		return 1
	}
	return 0
}

// coreRandom: longer streams with out-of-window and far-future frame numbers.
func coreRandom(r *vh.Runner, c *vh.Case, i int) {
	rng := vh.NewRand(r.Seed, "c08-core", i)
	start := []uint64{1, 1<<32 - 50, 3<<32 - 20, 1 << 31}[rng.Intn(4)]
	v := tubes.VerifNewReceiver(start)
	n := 40 + rng.Intn(200)
	got := make([]bool, n+1)
	var want []byte
	next := 0
	var consumed int
	var trace []string
	closed := false
	for step := 0; step < 6*n && !closed; step++ {
		var idx int
		switch k := rng.Intn(10); {
		case k < 5:
			idx = next + rng.Intn(8)
		case k < 7:
			idx = rng.Intn(n + 1)
		case k < 8:
			idx = next
		default:
			// hostile frame numbers: far outside the window
			far := uint32(start + uint64(next) + uint64(rng.Pick(1001, 5000, 1<<20, 1<<31)))
			v.Receive(far, []byte{0xEE, 0xEE}, false, false)
			trace = append(trace, fmt.Sprintf("far(%d)", far))
			idx = -1
		}
		if idx >= 0 {
			if idx > n {
				idx = n
			}
			if idx > next+999 {
				continue
			}
			fin := idx == n
			var data []byte
			if !fin {
				data = []byte{byte(idx), byte(idx >> 8), 0x77}
			}
			v.Receive(uint32(start+uint64(idx)), data, fin, false)
			if len(trace) < 400 {
				trace = append(trace, fmt.Sprint(idx))
			}
			got[idx] = true
			for next < n && got[next] {
				want = append(want, byte(next), byte(next>>8), 0x77)
				next++
			}
			if next == n && got[n] {
				closed = true
			}
		}
		r.Count("evaluations", 1)
		b := v.Buffered()
		if string(b) != string(want[consumed:]) || v.Closed() != closed {
			c.Violate("C08:reassembly-core-differs-from-model:random", map[string]any{"start": start, "n": n, "trace_tail": trace[max(0, len(trace)-30):], "buffer_len": len(b), "want_len": len(want) - consumed, "closed": v.Closed(), "want_closed": closed})
			return
		}
	}
	r.Nontrivial(fmt.Sprintf("core-rand|%d", i))
}
