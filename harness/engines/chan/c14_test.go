package chan_

import (
	"encoding/binary"
	"fmt"
	"time"

	"verif/harness/bub"
	"verif/harness/simnet"
	"verif/harness/vh"
)

// C14 through the real channel: the replay filter as the session uses it.
// Every data packet of one direction is held back by the adversary and then
// delivered one at a time in a generated order - ascending runs, forward
// jumps (also by more than the ring size), steps back to the window edges and
// to 64-counter block boundaries, duplicates - mixed with forged packets that
// carry a chosen counter and a garbage body and with bit-flipped copies. After
// each delivery the reader is polled: a genuine packet must come out exactly
// when the set-based reference filter (fed with *accepted* counters only)
// accepts its counter; nothing else may come out, and packets that do not
// authenticate must leave the filter untouched.

const c14Window = 448

type c14Model struct {
	seen map[uint64]bool
	top  uint64
	any  bool
}

func (m *c14Model) accepts(c uint64) bool {
	if !m.any {
		return true
	}
	if m.seen[c] {
		return false
	}
	return c+c14Window >= m.top
}

func (m *c14Model) accept(c uint64) {
	m.seen[c] = true
	if c > m.top || !m.any {
		m.top = c
	}
	m.any = true
}

func genC14(r *vh.Runner) {
	n := r.Pick(48, 8000)
	for i := 0; i < n; i++ {
		r.Case(fmt.Sprintf("channel-filter/%d", i), map[string]any{"rep": i}, func(c *vh.Case) {
			c.Bubble(func() { filterRun(r, c, i) })
		})
	}
}

func filterRun(r *vh.Runner, c *vh.Case, i int) {
	rng := vh.NewRand(r.Seed, "c14-chan", i)
	w, sessions, ok := setup(r, c, rng, 1)
	if !ok {
		teardown(w, sessions)
		return
	}
	defer teardown(w, sessions)
	s := sessions[0]
	dir := byte(rng.Intn(2))
	wr, rd := s.end(dir)
	type heldPkt struct {
		dl  simnet.Delivery
		ctr uint64
		id  msgID
	}
	var held []heldPkt
	holding := true
	seq := uint32(0)
	w.Net.SetPolicy(func(d *simnet.Datagram) []simnet.Delivery {
		toServer := sameUDP(d.Dst, w.SrvAddr)
		if holding && len(d.Data) >= 16 && d.Data[0] == 0x10 && toServer == (dir == dirC2S) {
			held = append(held, heldPkt{dl: simnet.Delivery{Data: append([]byte(nil), d.Data...), Src: d.Src, Dst: d.Dst, Tag: "genuine"},
				ctr: binary.BigEndian.Uint64(d.Data[8:16]), id: msgID{s.idx, dir, 0, seq}})
			return nil
		}
		return []simnet.Delivery{{Data: d.Data, Src: d.Src, Dst: d.Dst, Tag: "genuine"}}
	})
	total := rng.Pick(80, 200, 600)
	if r.Thorough() && rng.Chance(0.3) {
		total = rng.Pick(1200, 2500)
	}
	// the history may be long already: the sender's counter starts where the
	// harness wants to look (2^32 packets cannot be produced by sending them)
	base := []uint64{0, 0, 1<<32 - 40, 1<<32 + 5, 1 << 40, 1<<62 + 17, 1<<63 - 3000}[rng.Intn(7)]
	if base != 0 {
		if dir == dirC2S {
			s.cl.VerifSetSendCounter(base)
		} else {
			s.h.VerifSetSendCounter(base)
		}
	}
	// some messages are empty (a packet with an empty payload is a packet)
	empty := map[uint32]bool{}
	for k := 0; k < total; k++ {
		seq++
		id := msgID{s.idx, dir, 0, seq}
		msg := build(r.Seed, id, hdrLen+rng.Pick(0, 1, 30))
		if rng.Chance(0.06) {
			msg = nil
			empty[seq] = true
		}
		if err := wr.WriteMsg(msg); err != nil {
			c.Inconclusive("write failed: " + err.Error())
			return
		}
	}
	bub.Settle(2 * time.Millisecond)
	holding = false
	if len(held) != total {
		c.Inconclusive(fmt.Sprintf("held %d of %d packets", len(held), total))
		return
	}
	for k := 1; k < len(held); k++ {
		if held[k].ctr != held[k-1].ctr+1 {
			c.Inconclusive("packet counters are not consecutive")
			return
		}
	}
	m := &c14Model{seen: map[uint64]bool{}}
	buf := make([]byte, 4096)
	poll := func() (msgID, bool) {
		rd.SetReadDeadline(time.Now().Add(time.Millisecond))
		n, err := rd.ReadMsg(buf)
		rd.SetReadDeadline(time.Time{})
		if err != nil {
			return msgID{}, false
		}
		if n == 0 {
			return msgID{Seq: 0}, true // an empty message: identified by the packet it came in
		}
		id, _, _ := parse(buf[:n])
		return id, true
	}
	var history []string
	note := func(sx string) {
		history = append(history, sx)
		if len(history) > 40 {
			history = history[1:]
		}
	}
	cur := 0
	lastForged := ""
	steps := 3 * total / 2
	for k := 0; k < steps && !c.Violated(); k++ {
		// choose the next packet index
		switch rng.Intn(12) {
		case 0, 1, 2, 3:
			cur++
		case 4:
			cur += rng.Pick(2, 63, 64, 65, 128, 447, 448, 449, 512, 513, 600, 1100)
		case 5, 6:
			cur -= rng.Pick(1, 2, 62, 63, 64, 65, 127, 128, 129, 446, 447, 448, 449, 450, 511, 512)
		case 7:
			// the same again
		case 8:
			if m.any { // relative to the newest accepted counter
				cur = int(m.top-held[0].ctr) - rng.Pick(0, 1, 63, 64, 447, 448, 449)
			}
		default:
			cur = rng.Intn(total)
		}
		cur = max(0, min(total-1, cur))
		p := held[cur]
		kind := "genuine"
		switch rng.Intn(10) {
		case 0:
			kind = "forged-body-same-counter"
		case 1:
			kind = "forged-counter-ahead"
		case 2:
			kind = "bit-flipped-copy"
		}
		dl := p.dl
		switch kind {
		case "forged-body-same-counter":
			b := append(append([]byte(nil), p.dl.Data[:16]...), rng.Bytes(32+rng.Intn(40))...)
			dl = simnet.Delivery{Data: b, Src: p.dl.Src, Dst: p.dl.Dst, Tag: kind}
		case "forged-counter-ahead":
			b := append(append([]byte(nil), p.dl.Data[:16]...), rng.Bytes(32+rng.Intn(40))...)
			binary.BigEndian.PutUint64(b[8:16], p.ctr+uint64(rng.Pick(1, 64, 448, 449, 512, 5000, 1<<40)))
			dl = simnet.Delivery{Data: b, Src: p.dl.Src, Dst: p.dl.Dst, Tag: kind}
		case "bit-flipped-copy":
			b := append([]byte(nil), p.dl.Data...)
			pos := 16 + rng.Intn(len(b)-16) // body or tag; the header's counter is part of the associated data
			if rng.Chance(0.3) {
				pos = 8 + rng.Intn(8)
			}
			b[pos] ^= 1 << rng.Intn(8)
			dl = simnet.Delivery{Data: b, Src: p.dl.Src, Dst: p.dl.Dst, Tag: kind}
		}
		w.Net.Inject(dl)
		bub.Settle(time.Millisecond)
		got, delivered := poll()
		r.Count("evaluations", 1)
		r.Count("deliveries:"+kind, 1)
		det := func() map[string]any {
			return map[string]any{"counter": p.ctr, "first_counter": held[0].ctr, "newest_accepted": m.top, "kind": kind, "recent": history, "last_unauthenticated": lastForged}
		}
		if kind != "genuine" {
			note(fmt.Sprintf("%s@%d", kind, p.ctr-held[0].ctr))
			lastForged = history[len(history)-1]
			if delivered {
				c.Violate("C14:channel:unauthenticated-packet-delivered:"+kind, det())
			}
			continue
		}
		want := m.accepts(p.ctr)
		note(fmt.Sprintf("genuine@%d:%v", p.ctr-held[0].ctr, want))
		switch {
		case delivered && got != p.id && !(empty[p.id.Seq] && got.Seq == 0):
			d := det()
			d["got"] = got.String()
			c.Violate("C14:channel:another-message-delivered", d)
		case delivered && !want:
			cls := "duplicate"
			if !m.seen[p.ctr] {
				cls = "older-than-window"
			}
			c.Violate("C14:channel:"+cls+"-delivered", det())
		case !delivered && want:
			cls := "no-unauthenticated-packet-before"
			if lastForged != "" {
				cls = "after-unauthenticated-packets"
			}
			c.Violate("C14:channel:fresh-in-window-packet-rejected:"+cls, det())
		}
		if want {
			m.accept(p.ctr)
			r.Count("accepted", 1)
		} else {
			r.Count("rejected", 1)
		}
	}
	r.Nontrivial(fmt.Sprintf("channel-filter|%d|%d|%d", i, total, dir))
	if i == 0 {
		r.Sample(map[string]any{"kind": "channel-filter", "packets_held": total, "steps": steps, "tail": history})
	}
}
