// Engine chan: C03 (transport channel: authentic, at-most-once, complete,
// confidential) and C15 (peer address moves only on authentic fresh packets).
// Real transport.Server/Client over the simulated network in bubbles, built
// with the race detector.
package chan_

import (
	"bytes"
	"encoding/binary"
	"errors"
	"fmt"
	"io"
	"net"
	"os"
	"strings"
	"sync"
	"testing"
	"time"

	"hop.computer/hop/certs"
	"hop.computer/hop/transport"

	"verif/harness/bub"
	"verif/harness/fix"
	"verif/harness/simnet"
	"verif/harness/vh"
)

func TestEngine(t *testing.T) {
	vh.Main(t, map[string]func(*vh.Runner){"C03": genC03, "C15": genC15, "C14": genC14})
}

var marker = []byte("HOPVERIFMSGMARK!")

const hdrLen = 16 + 12

// msgID identifies a written message.
type msgID struct {
	Sess, Dir, Writer byte
	Seq               uint32
}

func (m msgID) String() string {
	return fmt.Sprintf("s%d/d%d/w%d/#%d", m.Sess, m.Dir, m.Writer, m.Seq)
}

// build makes the self-describing message of the given total length (>= hdrLen).
func build(seed uint64, id msgID, total int) []byte {
	b := make([]byte, total)
	copy(b, marker)
	b[16], b[17], b[18], b[19] = id.Sess, id.Dir, id.Writer, 0
	binary.BigEndian.PutUint32(b[20:], id.Seq)
	binary.BigEndian.PutUint32(b[24:], uint32(total))
	vh.NewRand(seed, "msg", id.Sess, id.Dir, id.Writer, id.Seq).Fill(b[hdrLen:])
	return b
}

func parse(b []byte) (msgID, int, bool) {
	if len(b) < hdrLen || !bytes.Equal(b[:16], marker) {
		return msgID{}, 0, false
	}
	return msgID{b[16], b[17], b[18], binary.BigEndian.Uint32(b[20:])}, int(binary.BigEndian.Uint32(b[24:])), true
}

const (
	dirC2S = 0
	dirS2C = 1
)

type mconn interface {
	WriteMsg([]byte) error
	ReadMsg([]byte) (int, error)
	Write([]byte) (int, error)
	SetReadDeadline(time.Time) error
	IsClosed() bool
}

type session struct {
	idx    byte
	cl     *transport.Client
	h      *transport.Handle
	ep     *simnet.Endpoint
	caddr  *net.UDPAddr
	hidden bool
	id     transport.SessionID
}

func (s *session) end(dir byte) (w, r mconn) {
	if dir == dirC2S {
		return s.cl, s.h
	}
	return s.h, s.cl
}

// monitor is the online oracle for delivered messages.
type monitor struct {
	mu       sync.Mutex
	seed     uint64
	written  map[msgID]int // id -> length
	seen     map[msgID]int
	c        *vh.Case
	r        *vh.Runner
	phase    string
	received int
}

func (m *monitor) wrote(id msgID, n int) {
	m.mu.Lock()
	m.written[id] = n
	m.mu.Unlock()
}

// got judges one message returned by a reader of (sess, dir).
func (m *monitor) got(sess, dir byte, b []byte) {
	m.mu.Lock()
	defer m.mu.Unlock()
	m.received++
	id, total, ok := parse(b)
	wit := func(extra string) map[string]any {
		return map[string]any{"phase": m.phase, "reader_session": sess, "reader_dir": dir, "message_head": vh.HexCap(b, 48), "len": len(b), "what": extra}
	}
	if !ok {
		m.c.Violate("C03:delivered-message-was-never-written:unparseable:"+m.phaseClass(), wit("not a harness message"))
		return
	}
	n, was := m.written[id]
	if !was {
		m.c.Violate("C03:delivered-message-was-never-written:"+m.phaseClass(), wit("id "+id.String()+" was never written"))
		return
	}
	if id.Sess != sess || id.Dir != dir {
		m.c.Violate("C03:delivered-on-wrong-session-or-direction:"+m.phaseClass(), wit("written as "+id.String()))
		return
	}
	if n != len(b) || total != len(b) || !bytes.Equal(b, build(m.seed, id, n)) {
		m.c.Violate("C03:delivered-message-altered:"+m.phaseClass(), wit("differs from what was written as "+id.String()))
		return
	}
	m.seen[id]++
	if m.seen[id] > 1 {
		m.c.Violate("C03:message-delivered-twice:"+m.phaseClass(), wit("id "+id.String()))
	}
}

func (m *monitor) phaseClass() string { return m.phase }

func (m *monitor) missing(filter func(msgID) bool) []string {
	m.mu.Lock()
	defer m.mu.Unlock()
	var out []string
	for id := range m.written {
		if filter(id) && m.seen[id] == 0 {
			out = append(out, id.String())
		}
	}
	return out
}

// drain reads everything currently deliverable on every session/direction.
func drain(m *monitor, sessions []*session, wait time.Duration) {
	buf := make([]byte, 70000)
	for _, s := range sessions {
		for _, dir := range []byte{dirC2S, dirS2C} {
			_, rd := s.end(dir)
			for {
				rd.SetReadDeadline(time.Now().Add(wait))
				n, err := rd.ReadMsg(buf)
				if err != nil {
					break
				}
				m.got(s.idx, dir, buf[:n])
			}
			rd.SetReadDeadline(time.Time{})
		}
	}
}

func setup(r *vh.Runner, c *vh.Case, rng *vh.Rand, nSess int) (*fix.World, []*session, bool) {
	return setupTweak(r, c, rng, nSess, nil)
}

func setupTweak(r *vh.Runner, c *vh.Case, rng *vh.Rand, nSess int, tweak func(*transport.ServerConfig)) (*fix.World, []*session, bool) {
	cv := &transport.VerifyConfig{}
	w := fix.NewWorld(true, cv, tweak)
	cv.Store = w.PKI.Store()
	id := w.PKI.Issue(certs.RawStringName("client"))
	var sessions []*session
	for i := 0; i < nSess; i++ {
		hidden := rng.Chance(0.4)
		cl, ep := w.NewClient(id, hidden, 3*time.Second)
		if err := cl.Handshake(); err != nil {
			c.Inconclusive("setup handshake failed: " + err.Error())
			return w, nil, false
		}
		h, err := w.Server.AcceptTimeout(2 * time.Second)
		if err != nil {
			c.Inconclusive("setup accept failed: " + err.Error())
			return w, nil, false
		}
		cs, _ := cl.VerifSession()
		if h.VerifSession().ID != cs.ID {
			c.Inconclusive("setup: accepted handle belongs to another session")
			return w, nil, false
		}
		sessions = append(sessions, &session{idx: byte(i), cl: cl, h: h, ep: ep, caddr: ep.Source(), hidden: hidden, id: cs.ID})
	}
	return w, sessions, true
}

func teardown(w *fix.World, sessions []*session) {
	for _, s := range sessions {
		s.cl.Close()
	}
	w.Server.Close()
}

// regions of a transport packet for targeted corruption.
func corrupt(rng *vh.Rand, pkt []byte) ([]byte, string) {
	m := append([]byte(nil), pkt...)
	type reg struct {
		name   string
		lo, hi int
	}
	regs := []reg{{"type", 0, 1}, {"reserved", 1, 4}, {"session-id", 4, 8}, {"counter", 8, 16}}
	if len(m) > 48 {
		regs = append(regs, reg{"body", 16, len(m) - 32}, reg{"tag", len(m) - 32, len(m)})
	}
	g := regs[rng.Intn(len(regs))]
	if g.hi > len(m) {
		g.hi = len(m)
	}
	if g.lo >= g.hi {
		return m, "none"
	}
	off := g.lo + rng.Intn(g.hi-g.lo)
	m[off] ^= byte(1 << uint(rng.Intn(8)))
	return m, g.name
}

// junkFor makes unauthenticated datagrams that borrow the public header of a
// genuine session packet.
func junkFor(rng *vh.Rand, pkt []byte, other *session) []simnet.Delivery {
	var out []simnet.Delivery
	add := func(tag string, data []byte) { out = append(out, simnet.Delivery{Data: data, Tag: tag}) }
	switch rng.Intn(9) {
	case 0, 1:
		m, reg := corrupt(rng, pkt)
		add("corrupt:"+reg, m)
	case 2: // truncation
		add("truncated", append([]byte(nil), pkt[:rng.Intn(len(pkt))]...))
	case 3: // extension
		add("extended", append(append([]byte(nil), pkt...), rng.Bytes(1+rng.Intn(40))...))
	case 4: // forged control with the live session id
		ctl := append([]byte(nil), pkt[:16]...)
		ctl[0] = 0x80
		body := rng.Bytes(rng.Pick(0, 1, 1, 2, 40) + 32)
		if len(body) == 33 {
			body[0] = 0x01 // "close"
		}
		add("forged-control", append(ctl, body...))
	case 5: // unknown type byte carrying the live session id
		m := append([]byte(nil), pkt...)
		m[0] = byte(rng.Pick(0x00, 0x11, 0x20, 0x7f, 0x81, 0xff, 0x06, 0x07))
		add("unknown-type", m)
	case 6: // counter far ahead, random body
		m := append([]byte(nil), pkt[:16]...)
		binary.BigEndian.PutUint64(m[8:], binary.BigEndian.Uint64(pkt[8:16])+uint64(rng.Pick(1, 448, 449, 100000)))
		add("forged-counter-ahead", append(m, rng.Bytes(32+rng.Intn(64))...))
	case 7: // another session's id on this packet
		if other != nil {
			m := append([]byte(nil), pkt...)
			copy(m[4:8], other.id[:])
			add("session-id-rewritten", m)
		}
	default: // pure random with a plausible header
		m := rng.Bytes(16 + rng.Intn(100))
		copy(m[:8], pkt[:8])
		add("random-body", m)
	}
	return out
}

func genC03(r *vh.Runner) {
	n := r.Pick(160, 36000)
	for i := 0; i < n; i++ {
		r.Case(fmt.Sprintf("schedule/%d", i), map[string]any{"schedule": i}, func(c *vh.Case) {
			c.Bubble(func() { scheduleRun(r, c, i) })
		})
	}
	ns := r.Pick(16, 100)
	for i := 0; i < ns; i++ {
		r.Case(fmt.Sprintf("sizes/%d", i), map[string]any{"rep": i}, func(c *vh.Case) {
			c.Bubble(func() { sizesRun(r, c, i) })
		})
	}
	nc := r.Pick(32, 400)
	for i := 0; i < nc; i++ {
		r.Case(fmt.Sprintf("concurrent-writers/%d", i), map[string]any{"rep": i}, func(c *vh.Case) {
			c.Bubble(func() { writersRun(r, c, i) })
		})
	}
	nz := r.Pick(8, 200)
	for i := 0; i < nz; i++ {
		r.Case(fmt.Sprintf("tamper-by-size/%d", i), map[string]any{"rep": i}, func(c *vh.Case) {
			c.Bubble(func() { tamperBySizeRun(r, c, i) })
		})
	}
	nh := r.Pick(6, 100)
	for i := 0; i < nh; i++ {
		r.Case(fmt.Sprintf("handshake-limits-and-later-traffic/%d", i), map[string]any{"rep": i}, func(c *vh.Case) {
			// a receive loop that spins on an expired socket deadline never
			// lets a bubble's clock move; the driver re-executes such a
			// stalled case in real time, where the lost message is seen
			if os.Getenv("VERIF_REALTIME") == "1" {
				hsLimitsRun(r, c, i)
				return
			}
			c.Bubble(func() { hsLimitsRun(r, c, i) })
		})
	}
	nhd := r.Pick(8, 300)
	for i := 0; i < nhd; i++ {
		r.Case(fmt.Sprintf("duplicated-handshake-datagrams/%d", i), map[string]any{"rep": i}, func(c *vh.Case) {
			c.Bubble(func() { handshakeDuplicatesRun(r, c, i) })
		})
	}
	nb := r.Pick(8, 200)
	for i := 0; i < nb; i++ {
		r.Case(fmt.Sprintf("short-read-buffers/%d", i), map[string]any{"rep": i}, func(c *vh.Case) {
			c.Bubble(func() { shortBufferRun(r, c, i) })
		})
	}
	nl := r.Pick(32, 3000)
	for i := 0; i < nl; i++ {
		r.Case(fmt.Sprintf("long-replay/%d", i), map[string]any{"rep": i}, func(c *vh.Case) {
			c.Bubble(func() { replayRun(r, c, i) })
		})
	}
}

// replayRun: a long exchange on a faithful network whose datagrams are all
// recorded; recorded datagrams are delivered again at chosen distances behind
// the newest counter (inside the current 64-counter block, across one and
// several block boundaries, at the edge of and beyond the 448-counter window),
// from the genuine and from a third address, while the exchange goes on.
func replayRun(r *vh.Runner, c *vh.Case, i int) {
	rng := vh.NewRand(r.Seed, "c03-replay", i)
	w, sessions, ok := setup(r, c, rng, 1)
	if !ok {
		teardown(w, sessions)
		return
	}
	defer teardown(w, sessions)
	s := sessions[0]
	m := &monitor{seed: r.Seed, written: map[msgID]int{}, seen: map[msgID]int{}, c: c, r: r, phase: "long-replay"}
	var rmu sync.Mutex
	var rec [2][]simnet.Delivery // per direction, in wire order
	// a few packets are held back on their way and arrive for the first time
	// when the newest counter is a chosen distance ahead (the window edge is
	// 448), then once more
	type heldBack struct {
		dir, idx, target int
		dl               simnet.Delivery
	}
	var held []heldBack
	lateBeyondWindow := map[uint64]bool{} // counters that legitimately never arrive in time
	w.Net.SetPolicy(func(d *simnet.Datagram) []simnet.Delivery {
		dl := simnet.Delivery{Data: append([]byte(nil), d.Data...), Src: d.Src, Dst: d.Dst, Tag: "genuine"}
		if len(d.Data) >= 16 && d.Data[0] == 0x10 {
			dir := 1
			if sameUDP(d.Dst, w.SrvAddr) {
				dir = 0
			}
			rmu.Lock()
			defer rmu.Unlock()
			rec[dir] = append(rec[dir], dl)
			if len(held) < 12 && rng.Chance(0.03) {
				h := heldBack{dir: dir, idx: len(rec[dir]) - 1, target: rng.Pick(1, 2, 63, 64, 65, 128, 446, 447, 448, 448, 449, 450, 470), dl: dl}
				h.dl.Tag = fmt.Sprintf("held-back-until-%d-behind", h.target)
				held = append(held, h)
				return nil
			}
		}
		return []simnet.Delivery{dl}
	})
	releaseDue := func() {
		rmu.Lock()
		var due []heldBack
		rest := held[:0]
		for _, h := range held {
			if len(rec[h.dir])-1-h.idx >= h.target {
				due = append(due, h)
			} else {
				rest = append(rest, h)
			}
		}
		held = rest
		rmu.Unlock()
		if len(due) == 0 {
			return
		}
		bub.Settle(2 * time.Millisecond) // the receiver has processed everything sent so far
		for _, h := range due {
			rmu.Lock()
			behind := len(rec[h.dir]) - 1 - h.idx
			rmu.Unlock()
			if behind > 448 {
				lateBeyondWindow[uint64(h.dir)<<32|uint64(h.idx)] = true
			}
			w.Net.Inject(h.dl)
			bub.Settle(time.Millisecond)
			dup := h.dl
			dup.Tag = "held-back-duplicate"
			w.Net.Inject(dup)
			if rng.Bool() {
				w.Net.Inject(dup)
			}
			r.Count("packets_held_back_then_duplicated", 1)
		}
	}
	total := rng.Pick(70, 130, 200, 520)
	if r.Thorough() && rng.Chance(0.3) {
		total = rng.Pick(700, 1100)
	}
	seq := uint32(0)
	replays := 0
	replaySome := func() {
		rmu.Lock()
		defer rmu.Unlock()
		for dir := 0; dir < 2; dir++ {
			n := len(rec[dir])
			if n == 0 {
				continue
			}
			for k := 0; k < 6; k++ {
				back := rng.Pick(0, 1, 2, 31, 62, 63, 64, 65, 66, 127, 128, 129, 191, 192, 193, 255, 256, 300, 383, 384, 446, 447, 448, 449, 450, 511, 512, 513, 600, rng.Intn(n))
				if back >= n {
					back = n - 1
				}
				stillHeld := false
				for _, h := range held {
					if h.dir == dir && h.idx == n-1-back {
						stillHeld = true // never delivered yet: a copy of it would be the first arrival, not a replay
					}
				}
				if stillHeld {
					continue
				}
				dl := rec[dir][n-1-back]
				dl.Tag = fmt.Sprintf("replay-%d-behind", back)
				if rng.Chance(0.25) {
					dl.Src = simnet.Addr(61000+rng.Intn(500), 2000+rng.Intn(50000))
				}
				if rng.Chance(0.2) {
					dl.Delay = time.Duration(rng.Intn(30)) * time.Millisecond
				}
				w.Net.Inject(dl)
				replays++
			}
		}
	}
	for sent := 0; sent < total && !c.Violated(); {
		k := min(1+rng.Intn(8), total-sent)
		for j := 0; j < k; j++ {
			for _, dir := range []byte{dirC2S, dirS2C} {
				wr, _ := s.end(dir)
				seq++
				id := msgID{s.idx, dir, 0, seq}
				n := hdrLen + rng.Pick(0, 1, 40)
				m.wrote(id, n)
				if err := wr.WriteMsg(build(r.Seed, id, n)); err != nil {
					c.Violate("C03:write-fails-on-live-session:long-replay", map[string]any{"id": id.String(), "err": err.Error()})
					return
				}
			}
			releaseDue()
		}
		sent += k
		bub.Settle(5 * time.Millisecond)
		if rng.Chance(0.35) {
			replaySome()
			bub.Settle(40 * time.Millisecond)
		}
		drain(m, sessions, time.Millisecond)
	}
	replaySome()
	bub.Settle(60 * time.Millisecond)
	drain(m, sessions, 5*time.Millisecond)
	r.Count("messages_written", int64(seq))
	r.Count("recorded_datagrams_replayed", int64(replays))
	r.Count("evaluations", int64(seq)+int64(replays))
	if c.Violated() {
		return
	}
	// every message arrives exactly once, except those whose only copy was held
	// back beyond the window (or is still held): message #q of a direction
	// travelled in that direction's q-th packet
	exempt := map[msgID]bool{}
	rmu.Lock()
	for _, h := range held {
		lateBeyondWindow[uint64(h.dir)<<32|uint64(h.idx)] = true
	}
	rmu.Unlock()
	for key := range lateBeyondWindow {
		dir, idx := byte(key>>32), uint32(key)
		exempt[msgID{s.idx, dir, 0, 2*idx + 1 + uint32(dir)}] = true
	}
	if miss := m.missing(func(id msgID) bool { return !exempt[id] }); len(miss) > 0 {
		c.Violate("C03:message-lost-on-faithful-network:long-replay", map[string]any{"missing": miss[:min(len(miss), 8)], "n_missing": len(miss), "replays": replays, "held_beyond_window": len(exempt)})
		return
	}
	r.Nontrivial(fmt.Sprintf("long-replay|%d|%d", i, total))
}

// scheduleRun: faithful phase, additive-hostile phase (genuine packets all
// delivered, unauthenticated ones added), lossy-hostile phase, probes.
func scheduleRun(r *vh.Runner, c *vh.Case, i int) {
	rng := vh.NewRand(r.Seed, "c03-sched", i)
	w, sessions, ok := setup(r, c, rng, 2+rng.Intn(3))
	if !ok {
		teardown(w, sessions)
		return
	}
	defer teardown(w, sessions)
	m := &monitor{seed: r.Seed, written: map[msgID]int{}, seen: map[msgID]int{}, c: c, r: r}
	seq := uint32(0)
	var tagCounts = map[string]int{}
	var tmu sync.Mutex
	// send writes k messages per session and direction
	send := func(k int) {
		for j := 0; j < k; j++ {
			for _, s := range sessions {
				for _, dir := range []byte{dirC2S, dirS2C} {
					wr, _ := s.end(dir)
					seq++
					id := msgID{s.idx, dir, 0, seq}
					n := hdrLen + rng.Pick(0, 1, 100, 1000, rng.Intn(3000))
					b := build(r.Seed, id, n)
					m.wrote(id, n)
					if err := wr.WriteMsg(b); err != nil {
						c.Violate("C03:write-fails-on-live-session:"+m.phase, map[string]any{"id": id.String(), "err": err.Error()})
						return
					}
					r.Count("messages_written", 1)
				}
			}
		}
	}
	isSession := func(d *simnet.Datagram) *session {
		for _, s := range sessions {
			if sameUDP(d.Src, s.ep.Source()) || sameUDP(d.Dst, s.ep.Source()) {
				return s
			}
		}
		return nil
	}
	count := func(tag string) {
		tmu.Lock()
		tagCounts[tag]++
		tmu.Unlock()
	}

	// ---- phase 1: faithful
	m.phase = "faithful"
	w.Net.SetPolicy(nil)
	send(3 + rng.Intn(4))
	bub.Settle(50 * time.Millisecond)
	drain(m, sessions, 20*time.Millisecond)
	if miss := m.missing(func(msgID) bool { return true }); len(miss) > 0 {
		c.Violate("C03:message-lost-on-faithful-network", map[string]any{"missing": miss[:min(len(miss), 8)], "n_missing": len(miss)})
		return
	}

	// ---- phase 2: additive hostility: every genuine packet is delivered in
	// order; unauthenticated datagrams are added before and after it
	m.phase = "additive-hostile"
	before := seq
	w.Net.SetPolicy(func(d *simnet.Datagram) []simnet.Delivery {
		s := isSession(d)
		if s == nil || len(d.Data) < 16 || d.Data[0] != 0x10 {
			return []simnet.Delivery{{Data: d.Data, Src: d.Src, Dst: d.Dst, Tag: "genuine"}}
		}
		var other *session
		if len(sessions) > 1 {
			other = sessions[(int(s.idx)+1)%len(sessions)]
		}
		var out []simnet.Delivery
		emit := func(js []simnet.Delivery) {
			for _, j := range js {
				j.Src, j.Dst = d.Src, d.Dst
				if rng.Chance(0.3) {
					j.Src = simnet.Addr(60000+rng.Intn(1000), 1000+rng.Intn(60000)) // from a third address
				}
				count(j.Tag)
				out = append(out, j)
			}
		}
		if rng.Chance(0.6) {
			emit(junkFor(rng, d.Data, other))
		}
		out = append(out, simnet.Delivery{Data: d.Data, Src: d.Src, Dst: d.Dst, Tag: "genuine"})
		if rng.Chance(0.5) {
			emit(junkFor(rng, d.Data, other))
		}
		if rng.Chance(0.25) { // exact duplicate right away and much later
			out = append(out, simnet.Delivery{Data: d.Data, Src: d.Src, Dst: d.Dst, Tag: "duplicate"})
			out = append(out, simnet.Delivery{Data: d.Data, Src: d.Src, Dst: d.Dst, Tag: "duplicate-late", Delay: time.Duration(1+rng.Intn(3000)) * time.Millisecond})
			count("duplicate")
		}
		if rng.Chance(0.15) { // reflected to its sender (direction crossing)
			out = append(out, simnet.Delivery{Data: d.Data, Src: d.Dst, Dst: d.Src, Tag: "reflected"})
			count("reflected")
		}
		if other != nil && rng.Chance(0.15) { // cross-session: delivered to another session's endpoint / from its address
			if sameUDP(d.Dst, w.SrvAddr) {
				out = append(out, simnet.Delivery{Data: d.Data, Src: other.ep.Source(), Dst: d.Dst, Tag: "cross-session"})
			} else {
				out = append(out, simnet.Delivery{Data: d.Data, Src: d.Src, Dst: other.ep.Source(), Tag: "cross-session"})
			}
			count("cross-session")
		}
		return out
	})
	send(4 + rng.Intn(6))
	bub.Settle(4 * time.Second)
	drain(m, sessions, 20*time.Millisecond)
	for _, s := range sessions {
		if s.cl.IsClosed() || s.h.IsClosed() {
			c.Violate("C03:unauthenticated-datagram-closed-session", map[string]any{"session": s.idx, "client_closed": s.cl.IsClosed(), "handle_closed": s.h.IsClosed()})
			return
		}
	}
	// a "cross-session" copy delivered from another client's address is an
	// authentic fresh packet from a new address when it arrives first: it is
	// still the same message on the same session, so completeness holds
	if miss := m.missing(func(id msgID) bool { return id.Seq > before }); len(miss) > 0 {
		c.Violate("C03:unauthenticated-datagram-disturbed-session:message-lost", map[string]any{"missing": miss[:min(len(miss), 8)], "n_missing": len(miss), "injected": tagCounts})
		return
	}

	// ---- phase 3: lossy hostility (drop / reorder as well): only
	// authenticity and at-most-once are judged, then probes
	m.phase = "lossy-hostile"
	w.Net.SetPolicy(func(d *simnet.Datagram) []simnet.Delivery {
		s := isSession(d)
		if s == nil || len(d.Data) < 16 || d.Data[0] != 0x10 {
			return []simnet.Delivery{{Data: d.Data, Src: d.Src, Dst: d.Dst, Tag: "genuine"}}
		}
		var out []simnet.Delivery
		switch k := rng.Intn(10); {
		case k < 2:
			count("dropped")
		case k < 4:
			out = append(out, simnet.Delivery{Data: d.Data, Src: d.Src, Dst: d.Dst, Tag: "delayed", Delay: time.Duration(rng.Intn(800)) * time.Millisecond})
			count("delayed")
		case k < 5: // corrupted in flight: the original never arrives
			mm, reg := corrupt(rng, d.Data)
			out = append(out, simnet.Delivery{Data: mm, Src: d.Src, Dst: d.Dst, Tag: "corrupt-in-flight:" + reg})
			count("corrupt-in-flight")
		default:
			out = append(out, simnet.Delivery{Data: d.Data, Src: d.Src, Dst: d.Dst, Tag: "genuine"})
		}
		if rng.Chance(0.3) {
			out = append(out, simnet.Delivery{Data: d.Data, Src: d.Src, Dst: d.Dst, Tag: "duplicate", Delay: time.Duration(rng.Intn(1500)) * time.Millisecond})
		}
		return out
	})
	send(4 + rng.Intn(6))
	bub.Settle(3 * time.Second)
	drain(m, sessions, 20*time.Millisecond)

	// ---- probes on a faithful network
	m.phase = "probe"
	w.Net.SetPolicy(nil)
	beforeProbe := seq
	send(1)
	bub.Settle(50 * time.Millisecond)
	drain(m, sessions, 20*time.Millisecond)
	if miss := m.missing(func(id msgID) bool { return id.Seq > beforeProbe }); len(miss) > 0 {
		c.Violate("C03:session-dead-after-hostile-burst", map[string]any{"probes_missing": miss, "injected": tagCounts})
		return
	}
	for _, s := range sessions {
		if s.cl.IsClosed() || s.h.IsClosed() {
			c.Violate("C03:unauthenticated-datagram-closed-session", map[string]any{"session": s.idx})
			return
		}
	}
	r.Count("evaluations", int64(m.received))
	r.Count("messages_delivered_and_checked", int64(m.received))
	for t, k := range tagCounts {
		r.Count("adversary:"+t, int64(k))
	}
	r.NontrivialN(int64(m.received)) // every delivered message has a unique id and was judged
	offlineWire(r, c, w, sessions)
	if i == 0 {
		r.Sample(map[string]any{"kind": "schedule", "sessions": len(sessions), "messages_written": seq, "delivered": m.received, "adversary_actions": tagCounts})
	}
}

func sameUDP(a, b *net.UDPAddr) bool {
	return a != nil && b != nil && a.Port == b.Port && a.IP.Equal(b.IP)
}

// offlineWire: counters of genuinely sent packets are pairwise distinct per
// (session, direction); no known plaintext window appears in any datagram.
func offlineWire(r *vh.Runner, c *vh.Case, w *fix.World, sessions []*session) {
	type key struct {
		sid transport.SessionID
		src string
	}
	seen := map[key]map[uint64]bool{}
	var needles [][]byte
	needles = append(needles, marker)
	sni := &bytes.Buffer{}
	n := fix.ServerName
	n.WriteTo(sni)
	needles = append(needles, sni.Bytes())
	for _, raw := range [][]byte{fix.Raw(w.ServerID.Leaf), fix.Raw(w.ServerID.Int)} {
		for off := 0; off+16 <= len(raw); off += 37 {
			needles = append(needles, raw[off:off+16])
		}
	}
	for _, ev := range w.Net.Log() {
		if ev.Kind != "tx" {
			continue
		}
		r.Count("wire_datagrams_scanned", 1)
		for _, nd := range needles {
			if bytes.Contains(ev.Data, nd) {
				c.Violate("C03:plaintext-on-the-wire", map[string]any{"datagram_head": vh.HexCap(ev.Data, 32), "len": ev.Len, "needle": vh.HexCap(nd, 16), "src": ev.Src})
				return
			}
		}
		if len(ev.Data) >= 16 && (ev.Data[0] == 0x10 || ev.Data[0] == 0x80) {
			var k key
			copy(k.sid[:], ev.Data[4:8])
			k.src = ev.Src
			ctr := binary.BigEndian.Uint64(ev.Data[8:16])
			if seen[k] == nil {
				seen[k] = map[uint64]bool{}
			}
			if seen[k][ctr] {
				c.Violate("C03:packet-counter-reused", map[string]any{"session": fmt.Sprintf("%x", k.sid), "sender": k.src, "counter": ctr})
				return
			}
			seen[k][ctr] = true
		}
	}
}

// sizesRun: Write / WriteMsg of every boundary size on a quiet faithful session.
func sizesRun(r *vh.Runner, c *vh.Case, i int) {
	rng := vh.NewRand(r.Seed, "c03-sizes", i)
	w, sessions, ok := setup(r, c, rng, 1)
	if !ok {
		teardown(w, sessions)
		return
	}
	defer teardown(w, sessions)
	s := sessions[0]
	const Max = transport.MaxPlaintextSize
	sizes := []int{0, 1, 2, Max - 1, Max, Max + 1, 2*Max - 1, 2 * Max, 2*Max + 1, 3*Max + 17, 5 * Max, rng.Intn(4 * Max)}
	for _, dir := range []byte{dirC2S, dirS2C} {
		wr, rd := s.end(dir)
		for _, n := range sizes {
			data := rng.Bytes(n)
			got, err := wr.Write(data)
			r.Count("evaluations", 1)
			r.Count("write_calls", 1)
			r.Nontrivial(fmt.Sprintf("size|%d|%d|%d", i, dir, n))
			bub.Settle(20 * time.Millisecond)
			var recv []byte
			buf := make([]byte, 70000)
			for {
				rd.SetReadDeadline(time.Now().Add(20 * time.Millisecond))
				k, e := rd.ReadMsg(buf)
				if e != nil {
					break
				}
				recv = append(recv, buf[:k]...)
				if n == 0 {
					break
				}
			}
			rd.SetReadDeadline(time.Time{})
			d := map[string]any{"size": n, "dir": dir, "write_returned": got, "write_err": fmt.Sprint(err), "bytes_delivered": len(recv), "max_plaintext": Max}
			cls := "single-packet"
			if n > Max {
				cls = "multi-packet"
			}
			switch {
			case err != nil:
				c.Violate("C03:write-fails-on-faithful-network:"+cls, d)
			case got != n:
				c.Violate("C03:write-reports-wrong-count:"+cls, d)
			case !bytes.Equal(recv, data):
				c.Violate("C03:written-bytes-not-delivered:"+cls, d)
			}
			if c.Violated() {
				return
			}
		}
		// WriteMsg: Max is accepted, Max+1 refused with ErrBufOverflow and nothing sent
		big := rng.Bytes(Max)
		if err := wr.WriteMsg(big); err != nil {
			c.Violate("C03:writemsg-refuses-max-size", map[string]any{"err": err.Error()})
			return
		}
		bub.Settle(20 * time.Millisecond)
		buf := make([]byte, 70000)
		rd.SetReadDeadline(time.Now().Add(20 * time.Millisecond))
		k, e := rd.ReadMsg(buf)
		if e != nil || !bytes.Equal(buf[:k], big) {
			c.Violate("C03:written-bytes-not-delivered:max-writemsg", map[string]any{"err": fmt.Sprint(e), "len": k})
			return
		}
		mark := w.Net.LogLen()
		err := wr.WriteMsg(rng.Bytes(Max + 1))
		bub.Settle(20 * time.Millisecond)
		if !errors.Is(err, transport.ErrBufOverflow) || len(w.Net.LogSince(mark)) > 0 {
			c.Violate("C03:writemsg-oversize-not-refused", map[string]any{"err": fmt.Sprint(err), "datagrams": len(w.Net.LogSince(mark))})
			return
		}
		rd.SetReadDeadline(time.Time{})
		r.Count("evaluations", 2)
	}
	offlineWire(r, c, w, sessions)
	if i == 0 {
		r.Sample(map[string]any{"kind": "sizes", "sizes": sizes, "max_plaintext": Max})
	}
}

// writersRun: 2-8 goroutines write concurrently on one connection end.
func writersRun(r *vh.Runner, c *vh.Case, i int) {
	rng := vh.NewRand(r.Seed, "c03-writers", i)
	w, sessions, ok := setup(r, c, rng, 1)
	if !ok {
		teardown(w, sessions)
		return
	}
	defer teardown(w, sessions)
	s := sessions[0]
	m := &monitor{seed: r.Seed, written: map[msgID]int{}, seen: map[msgID]int{}, c: c, r: r, phase: "concurrent-writers"}
	nw := 2 + rng.Intn(7)
	per := 10 + rng.Intn(40)
	dir := byte(rng.Intn(2))
	wr, _ := s.end(dir)
	var wg sync.WaitGroup
	var werr error
	var emu sync.Mutex
	for g := 0; g < nw; g++ {
		lens := make([]int, per)
		for k := range lens {
			lens[k] = hdrLen + rng.Pick(0, 10, 500, 1400)
		}
		wg.Add(1)
		go func(g int) {
			defer wg.Done()
			for k := 0; k < per; k++ {
				id := msgID{s.idx, dir, byte(g), uint32(k)}
				m.wrote(id, lens[k])
				if err := wr.WriteMsg(build(r.Seed, id, lens[k])); err != nil {
					emu.Lock()
					werr = err
					emu.Unlock()
					return
				}
			}
		}(g)
	}
	wg.Wait()
	if werr != nil {
		c.Violate("C03:write-fails-on-live-session:concurrent-writers", map[string]any{"err": werr.Error()})
		return
	}
	bub.Settle(100 * time.Millisecond)
	drain(m, sessions, 20*time.Millisecond)
	r.Count("evaluations", int64(m.received))
	r.Count("messages_delivered_and_checked", int64(m.received))
	r.Count("concurrent_writer_goroutines", int64(nw))
	r.NontrivialN(int64(m.received))
	if miss := m.missing(func(msgID) bool { return true }); len(miss) > 0 {
		c.Violate("C03:message-lost-on-faithful-network:concurrent-writers", map[string]any{"missing": miss[:min(len(miss), 8)], "n_missing": len(miss), "writers": nw})
		return
	}
	offlineWire(r, c, w, sessions)
	if i == 0 {
		r.Sample(map[string]any{"kind": "concurrent-writers", "writers": nw, "messages_each": per, "direction": dir})
	}
}

var _ = io.EOF
var _ = os.ErrDeadlineExceeded

func genC15(r *vh.Runner) {
	nq := r.Pick(12, 300)
	for i := 0; i < nq; i++ {
		r.Case(fmt.Sprintf("queued-writes/%d", i), map[string]any{"rep": i}, func(c *vh.Case) { queuedWritesRun(r, c, i) })
	}
	nh := r.Pick(12, 600)
	for i := 0; i < nh; i++ {
		r.Case(fmt.Sprintf("handshake-replies-from-a-third-address/%d", i), map[string]any{"rep": i}, func(c *vh.Case) {
			c.Bubble(func() { handshakeSourceRun(r, c, i) })
		})
	}
	n := r.Pick(120, 30000)
	for i := 0; i < n; i++ {
		r.Case(fmt.Sprintf("roam/%d", i), map[string]any{"history": i}, func(c *vh.Case) {
			c.Bubble(func() { roamRun(r, c, i) })
		})
	}
}

// roamRun: one session; the "mover" end changes its source address and the
// adversary sends forged, corrupted and replayed packets from third
// addresses; after every step the "follower" end writes one message and the
// wire log shows where it went.
func roamRun(r *vh.Runner, c *vh.Case, i int) {
	rng := vh.NewRand(r.Seed, "c15", i)
	// in some histories the follower (the server) has a tiny receive queue that
	// nobody drains: genuine packets are authenticated, then dropped for lack
	// of room - the address they came from still counts
	smallQueue := rng.Chance(0.25)
	var tweak func(*transport.ServerConfig)
	if smallQueue {
		tweak = func(sc *transport.ServerConfig) { sc.MaxBufferedPacketsPerConnection = 3 }
	}
	w, sessions, ok := setupTweak(r, c, rng, 1, tweak)
	if !ok {
		teardown(w, sessions)
		return
	}
	defer teardown(w, sessions)
	s := sessions[0]
	serverFollows := rng.Bool() || smallQueue
	var recorded [][]byte // every genuine packet of the mover seen on the wire
	role := "client-follows-server"
	var follower, mover mconn
	var moverEP, followerEP *simnet.Endpoint
	if serverFollows {
		role = "server-follows-client"
		follower, mover = s.h, s.cl
		moverEP, followerEP = s.ep, w.SrvEP
	} else {
		follower, mover = s.cl, s.h
		moverEP, followerEP = w.SrvEP, s.ep
	}
	followerAddr := followerEP.Source()
	expected := moverEP.Source()
	var lastGenuine []byte // a genuine packet already delivered
	// other addresses: IPv4 with a new port, or (in some histories) IPv6
	// addresses that often keep the port of the current one and differ from
	// it in the address alone
	family := rng.Pick(4, 4, 6, 46)
	third := func() *net.UDPAddr {
		if family == 6 || (family == 46 && rng.Bool()) {
			ip := append(net.IP{0x20, 0x01, 0x0d, 0xb8}, rng.Bytes(12)...)
			port := 2000 + rng.Intn(60000)
			if rng.Chance(0.6) {
				port = expected.Port
			}
			return &net.UDPAddr{IP: ip, Port: port}
		}
		return simnet.Addr(50000+rng.Intn(5000), 2000+rng.Intn(60000))
	}
	r.Count(fmt.Sprintf("roaming_address_family:%d", family), 1)
	seq := uint32(0)
	var history []string

	// where does the follower send now?
	probe := func(step string) bool {
		mark := w.Net.LogLen()
		seq++
		if err := follower.WriteMsg(build(r.Seed, msgID{0, 9, 9, seq}, hdrLen+8)); err != nil {
			c.Violate("C15:follower-cannot-write:"+role, map[string]any{"step": step, "err": err.Error(), "history": history})
			return false
		}
		bub.Settle(5 * time.Millisecond)
		dst := ""
		for _, ev := range w.Net.LogSince(mark) {
			if ev.Kind == "tx" && ev.Src == followerAddr.String() {
				dst = ev.Dst
			}
		}
		r.Count("evaluations", 1)
		r.Count("steps:"+step, 1)
		if dst != expected.String() {
			sig := "C15:traffic-redirected-by:" + step
			if strings.HasPrefix(step, "genuine-from-new-address") || strings.HasPrefix(step, "genuine-first-delivered-via-other-address") {
				sig = "C15:address-not-followed-after:" + step
			}
			c.Violate(sig+":"+role, map[string]any{"step": step, "sent_to": dst, "expected": expected.String(), "history": history})
			return false
		}
		return true
	}
	// genuine packet with a delivery plan
	genuine := func(plan string) {
		src := moverEP.Source()
		t := third()
		w.Net.SetPolicy(func(d *simnet.Datagram) []simnet.Delivery {
			if !sameUDP(d.Src, src) || len(d.Data) < 16 || d.Data[0] != 0x10 {
				return []simnet.Delivery{{Data: d.Data, Src: d.Src, Dst: d.Dst, Tag: "genuine"}}
			}
			lastGenuine = append([]byte(nil), d.Data...)
			recorded = append(recorded, lastGenuine)
			switch plan {
			case "via-other-address":
				return []simnet.Delivery{{Data: d.Data, Src: t, Dst: d.Dst, Tag: "genuine-first-via-third"}}
			case "flipped-copy-first":
				m, _ := corrupt(rng, d.Data)
				return []simnet.Delivery{{Data: m, Src: t, Dst: d.Dst, Tag: "corrupt"}, {Data: d.Data, Src: d.Src, Dst: d.Dst, Tag: "genuine"}}
			case "replayed-from-third":
				return []simnet.Delivery{{Data: d.Data, Src: d.Src, Dst: d.Dst, Tag: "genuine"}, {Data: d.Data, Src: t, Dst: d.Dst, Tag: "replay"}}
			}
			return []simnet.Delivery{{Data: d.Data, Src: d.Src, Dst: d.Dst, Tag: "genuine"}}
		})
		seq++
		mover.WriteMsg(build(r.Seed, msgID{0, 8, 8, seq}, hdrLen+rng.Intn(64)))
		bub.Settle(5 * time.Millisecond)
		w.Net.SetPolicy(nil)
		// the follower's peer address is now the source of this genuine,
		// first-delivered packet
		if plan == "via-other-address" {
			expected = t
			w.Net.Alias(moverEP, t) // so that the follower's traffic still reaches the mover
		} else {
			expected = src
		}
	}
	// in some histories the follower keeps sending on its own while all this
	// happens (sends in flight during address updates; the race build watches)
	if rng.Chance(0.4) {
		stopBG := make(chan struct{})
		bgDone := make(chan struct{})
		go func() {
			defer close(bgDone)
			for q := uint32(0); ; q++ {
				select {
				case <-stopBG:
					return
				default:
				}
				follower.WriteMsg(build(r.Seed, msgID{0, 7, 7, q}, hdrLen+int(q%50)))
				time.Sleep(700 * time.Microsecond)
			}
		}()
		defer func() { close(stopBG); <-bgDone }()
		r.Count("histories_with_background_sender", 1)
	}
	steps := 12 + rng.Intn(25)
	genuine("plain")
	if !probe("genuine-from-current-address") {
		return
	}
	for k := 0; k < steps; k++ {
		step := ""
		switch rng.Intn(12) {
		case 10, 11:
			// a burst that moves the counter across one or more 64-counter block
			// boundaries, then an earlier genuine packet again from a third address
			step = "earlier-genuine-replayed-from-third-address-after-burst"
			var old []byte
			if len(recorded) > 0 {
				old = recorded[rng.Intn(len(recorded))]
			}
			for q := rng.Pick(20, 70, 70, 130, 200); q > 0; q-- {
				seq++
				mover.WriteMsg(build(r.Seed, msgID{0, 8, 8, seq}, hdrLen))
			}
			expected = moverEP.Source()
			bub.Settle(5 * time.Millisecond)
			buf := make([]byte, 4096)
			for {
				follower.SetReadDeadline(time.Now().Add(time.Millisecond))
				if _, err := follower.ReadMsg(buf); err != nil {
					break
				}
			}
			follower.SetReadDeadline(time.Time{})
			if smallQueue { // fill it up again
				for q := 0; q < 5; q++ {
					seq++
					mover.WriteMsg(build(r.Seed, msgID{0, 8, 8, seq}, hdrLen))
				}
				bub.Settle(2 * time.Millisecond)
			}
			if old != nil {
				w.Net.Inject(simnet.Delivery{Data: old, Src: third(), Dst: followerAddr, Tag: "replay-earlier"})
			}
		case 0, 1:
			step = "genuine-from-new-address"
			na := third()
			moverEP.SetSource(na)
			genuine("plain")
		case 2:
			step = "genuine-from-current-address"
			genuine("plain")
		case 3:
			step = "forged-from-third-address"
			pkt := rng.Bytes(16 + 32 + rng.Intn(80))
			pkt[0], pkt[1], pkt[2], pkt[3] = 0x10, 0, 0, 0
			copy(pkt[4:8], s.id[:])
			if lastGenuine != nil && rng.Bool() { // plausible counter: next one
				binary.BigEndian.PutUint64(pkt[8:], binary.BigEndian.Uint64(lastGenuine[8:16])+1)
			}
			w.Net.Inject(simnet.Delivery{Data: pkt, Src: third(), Dst: followerAddr, Tag: "forged"})
		case 4:
			step = "bit-flipped-copy-from-third-address"
			genuine("flipped-copy-first")
		case 5:
			step = "replay-from-third-address"
			genuine("replayed-from-third")
		case 6:
			step = "old-replay-from-third-address"
			if lastGenuine != nil {
				w.Net.Inject(simnet.Delivery{Data: lastGenuine, Src: third(), Dst: followerAddr, Tag: "replay"})
			}
		case 7:
			step = "forged-control-from-third-address"
			pkt := rng.Bytes(16 + 33)
			pkt[0], pkt[1], pkt[2], pkt[3] = 0x80, 0, 0, 0
			copy(pkt[4:8], s.id[:])
			pkt[16] = 0x01
			w.Net.Inject(simnet.Delivery{Data: pkt, Src: third(), Dst: followerAddr, Tag: "forged-control"})
		case 8:
			step = "genuine-first-delivered-via-other-address"
			genuine("via-other-address")
		default:
			step = "replay-older-than-window"
			old := lastGenuine
			for q := 0; q < 460; q++ {
				seq++
				mover.WriteMsg(build(r.Seed, msgID{0, 8, 8, seq}, hdrLen))
			}
			expected = moverEP.Source() // 460 genuine fresh packets from the mover's own address
			bub.Settle(5 * time.Millisecond)
			// drain so that the receive queue does not fill up
			buf := make([]byte, 4096)
			for {
				follower.SetReadDeadline(time.Now().Add(time.Millisecond))
				if _, err := follower.ReadMsg(buf); err != nil {
					break
				}
			}
			follower.SetReadDeadline(time.Time{})
			if old != nil {
				w.Net.Inject(simnet.Delivery{Data: old, Src: third(), Dst: followerAddr, Tag: "replay-old"})
			}
		}
		bub.Settle(5 * time.Millisecond)
		if smallQueue {
			step += ":receive-queue-full"
		}
		history = append(history, step)
		if !probe(step) {
			return
		}
		// white-box: the recorded remote address agrees
		if serverFollows {
			if ra := s.h.VerifSession().Remote; ra == nil || ra.String() != expected.String() {
				c.Violate("C15:recorded-address-differs:"+role, map[string]any{"recorded": fmt.Sprint(ra), "expected": expected.String(), "history": history})
				return
			}
		}
	}
	r.Nontrivial(fmt.Sprintf("roam|%d|%s|%v", i, role, history))
	if i < 2 {
		r.Sample(map[string]any{"kind": "roaming-history", "role": role, "steps": history})
	}
}

// queuedWritesRun (real time; a goroutine queueing on the handle's write lock
// would stop a bubble's clock): the server's socket holds one write; two more
// writes queue behind it; the client roams and the server is seen to have
// recorded the new address; only then is the held write released. What the
// server seals after the address update - the two queued writes - must go to
// the new address.
func queuedWritesRun(r *vh.Runner, c *vh.Case, i int) {
	rng := vh.NewRand(r.Seed, "c15-queued", i)
	w, sessions, ok := setup(r, c, rng, 1)
	if !ok {
		teardown(w, sessions)
		return
	}
	defer teardown(w, sessions)
	s := sessions[0]
	release := make(chan struct{})
	entered := w.SrvEP.HoldNextWrite(release)
	sizes := []int{hdrLen + 101, hdrLen + 202, hdrLen + 303}
	mark := w.Net.LogLen()
	var wg sync.WaitGroup
	write := func(qi int) {
		defer wg.Done()
		s.h.WriteMsg(build(r.Seed, msgID{0, 9, 9, uint32(900000 + qi)}, sizes[qi]))
	}
	wg.Add(1)
	go write(0)
	select {
	case <-entered:
	case <-time.After(5 * time.Second):
		close(release)
		c.Inconclusive("the first write never reached the socket")
		return
	}
	wg.Add(2)
	go write(1)
	go write(2)
	time.Sleep(time.Duration(5+rng.Intn(30)) * time.Millisecond) // let them queue on the write lock
	na := simnet.Addr(52000+rng.Intn(500), 3000+rng.Intn(50000))
	s.ep.SetSource(na)
	s.cl.WriteMsg(build(r.Seed, msgID{0, 8, 8, 1}, hdrLen+8)) // genuine, from the new address
	updated := false
	for k := 0; k < 400 && !updated; k++ {
		if ra := s.h.VerifSession().Remote; ra != nil && ra.String() == na.String() {
			updated = true
		} else {
			time.Sleep(5 * time.Millisecond)
		}
	}
	close(release)
	wg.Wait()
	time.Sleep(20 * time.Millisecond)
	r.Count("evaluations", 1)
	if !updated {
		c.Inconclusive("the server did not record the new address within 2 s")
		return
	}
	r.Count("roams_with_writes_queued", 1)
	r.Nontrivial(fmt.Sprintf("queued-writes|%d", i))
	for _, ev := range w.Net.LogSince(mark) {
		if ev.Kind != "tx" || ev.Src != w.SrvAddr.String() {
			continue
		}
		for qi, sz := range sizes[1:] {
			if ev.Len == 16+sz+32 && ev.Dst != na.String() { // 16 header + plaintext + 32 tag
				c.Violate("C15:queued-write-sent-to-the-old-address-after-roaming:server-follows-client", map[string]any{"queued_write": qi + 2, "sent_to": ev.Dst, "new_address": na.String()})
				return
			}
		}
	}
	// one Write larger than a packet (three fragments): the socket write of the
	// first fragment is held, the client roams meanwhile, the remaining
	// fragments go to the new address
	{
		release := make(chan struct{})
		entered := w.SrvEP.HoldNextWrite(release)
		tail := 700 + rng.Intn(600)
		big := make([]byte, 2*transport.MaxPlaintextSize+tail)
		mark := w.Net.LogLen()
		wdone := make(chan struct{})
		go func() { defer close(wdone); s.h.Write(big) }()
		select {
		case <-entered:
		case <-time.After(5 * time.Second):
			close(release)
			c.Inconclusive("the first fragment never reached the socket")
			return
		}
		nb := simnet.Addr(52600+rng.Intn(300), 3000+rng.Intn(50000))
		s.ep.SetSource(nb)
		s.cl.WriteMsg(build(r.Seed, msgID{0, 8, 8, 2}, hdrLen+8))
		moved := false
		for k := 0; k < 400 && !moved; k++ {
			if ra := s.h.VerifSession().Remote; ra != nil && ra.String() == nb.String() {
				moved = true
			} else {
				time.Sleep(5 * time.Millisecond)
			}
		}
		close(release)
		select {
		case <-wdone:
		case <-time.After(10 * time.Second):
			c.Inconclusive("the large write did not return")
			return
		}
		time.Sleep(20 * time.Millisecond)
		if !moved {
			c.Inconclusive("the server did not record the new address within 2 s")
			return
		}
		r.Count("evaluations", 1)
		r.Count("roams_during_a_multi_packet_write", 1)
		toOld := 0
		for _, ev := range w.Net.LogSince(mark) {
			if ev.Kind != "tx" || ev.Src != w.SrvAddr.String() || ev.Dst == nb.String() {
				continue
			}
			if ev.Len == 16+tail+32 {
				c.Violate("C15:fragment-sent-to-the-old-address-after-roaming:server-follows-client", map[string]any{"fragment": "last", "sent_to": ev.Dst, "new_address": nb.String()})
				return
			}
			if ev.Len == 16+transport.MaxPlaintextSize+32 {
				toOld++
			}
		}
		if toOld > 1 { // the held fragment had its address before the roam
			c.Violate("C15:fragment-sent-to-the-old-address-after-roaming:server-follows-client", map[string]any{"full_size_fragments_to_old_address": toOld, "new_address": nb.String()})
			return
		}
		na = nb
	}
	// second phase: the server sends without pause while the client roams
	// several times, changing IP and port each time (sends are in flight during
	// the address updates; every datagram must go to an address the client has
	// really used, and the race build watches the update)
	used := map[string]bool{s.caddr.String(): true, na.String(): true}
	var umu sync.Mutex
	stop := make(chan struct{})
	var hot sync.WaitGroup
	hot.Add(1)
	mark = w.Net.LogLen()
	go func() {
		defer hot.Done()
		msg := build(r.Seed, msgID{0, 9, 9, 950000}, hdrLen+16)
		for k := 0; k < 4000; k++ {
			select {
			case <-stop:
				return
			default:
			}
			s.h.WriteMsg(msg)
		}
	}()
	for k := 0; k < 12; k++ {
		a := simnet.Addr(53000+rng.Intn(4000), 3000+rng.Intn(50000))
		umu.Lock()
		used[a.String()] = true
		umu.Unlock()
		s.ep.SetSource(a)
		s.cl.WriteMsg(build(r.Seed, msgID{0, 8, 8, uint32(10 + k)}, hdrLen+8))
		time.Sleep(time.Duration(200+rng.Intn(800)) * time.Microsecond)
	}
	close(stop)
	hot.Wait()
	time.Sleep(10 * time.Millisecond)
	r.Count("roams_under_continuous_sending", 12)
	for _, ev := range w.Net.LogSince(mark) {
		if ev.Kind == "tx" && ev.Src == w.SrvAddr.String() && !used[ev.Dst] {
			c.Violate("C15:traffic-sent-to-an-address-the-peer-never-used:server-follows-client", map[string]any{"sent_to": ev.Dst})
			return
		}
	}
}

// handshakeSourceRun: while the handshake runs, a verbatim copy of each server
// reply reaches the client from a third address before the genuine datagram
// does. No packet under the session's keys ever came from that address: the
// client's handshake messages and its session traffic go to the address it
// dialled.
func handshakeSourceRun(r *vh.Runner, c *vh.Case, i int) {
	rng := vh.NewRand(r.Seed, "c15-hssrc", i)
	cv := &transport.VerifyConfig{}
	w := fix.NewWorld(true, cv, nil)
	cv.Store = w.PKI.Store()
	defer w.Server.Close()
	id := w.PKI.Issue(certs.RawStringName("client"))
	hidden := i%2 == 1
	cl, ep := w.NewClient(id, hidden, 3*time.Second)
	caddr := ep.Source()
	third := simnet.Addr(58000+rng.Intn(500), 2000+rng.Intn(60000))
	if rng.Bool() {
		third = &net.UDPAddr{IP: w.SrvAddr.IP, Port: w.SrvAddr.Port + 1 + rng.Intn(50)}
	}
	copies := 0
	w.Net.SetPolicy(func(d *simnet.Datagram) []simnet.Delivery {
		genuine := simnet.Delivery{Data: d.Data, Src: d.Src, Dst: d.Dst, Tag: "genuine"}
		if sameUDP(d.Dst, caddr) && len(d.Data) > 0 && d.Data[0] < 0x10 {
			copies++
			return []simnet.Delivery{{Data: append([]byte(nil), d.Data...), Src: third, Dst: d.Dst, Tag: "copy-from-third-address"}, genuine}
		}
		return []simnet.Delivery{genuine}
	})
	err := cl.Handshake()
	w.Net.SetPolicy(nil)
	defer cl.Close()
	r.Count("evaluations", 1)
	r.Count("handshakes_with_replies_copied_from_a_third_address", 1)
	if err == nil {
		cl.WriteMsg(build(r.Seed, msgID{0, 0, 0, 1}, hdrLen+16))
		bub.Settle(10 * time.Millisecond)
	}
	for _, ev := range w.Net.LogSince(0) {
		if ev.Kind == "tx" && ev.Src == caddr.String() && ev.Dst != w.SrvAddr.String() {
			c.Violate("C15:client-sends-to-an-address-it-never-dialled:during-handshake", map[string]any{"sent_to": ev.Dst, "dialled": w.SrvAddr.String(), "hidden": hidden, "handshake_error": fmt.Sprint(err), "first_byte": ev.Data[0]})
			return
		}
	}
	if cs, ok := cl.VerifSession(); ok && err == nil && cs.Remote != nil && cs.Remote.String() != w.SrvAddr.String() {
		c.Violate("C15:client-session-peer-is-an-address-it-never-dialled", map[string]any{"peer": cs.Remote.String(), "dialled": w.SrvAddr.String(), "hidden": hidden})
		return
	}
	if copies == 0 {
		c.Inconclusive("no server reply seen")
		return
	}
	r.Nontrivial(fmt.Sprintf("hssrc|%d", i))
}

// tamperBySizeRun: messages of every length around the 200-byte blocks of the
// cipher; for each, a copy with one bit flipped (anywhere, and in particular in
// the last 200 bytes) arrives before the genuine packet. Nothing altered is
// ever delivered, the genuine message is.
func tamperBySizeRun(r *vh.Runner, c *vh.Case, i int) {
	rng := vh.NewRand(r.Seed, "c03-tbs", i)
	w, sessions, ok := setup(r, c, rng, 1)
	if !ok {
		teardown(w, sessions)
		return
	}
	defer teardown(w, sessions)
	s := sessions[0]
	m := &monitor{seed: r.Seed, written: map[msgID]int{}, seen: map[msgID]int{}, c: c, r: r, phase: "tamper-by-size"}
	where := "anywhere"
	w.Net.SetPolicy(func(d *simnet.Datagram) []simnet.Delivery {
		if len(d.Data) < 16+32 || d.Data[0] != 0x10 {
			return []simnet.Delivery{{Data: d.Data, Src: d.Src, Dst: d.Dst, Tag: "genuine"}}
		}
		bad := append([]byte(nil), d.Data...)
		body := len(bad) - 16 - 32 // ciphertext bytes between the header and the tag
		pos := 16 + rng.Intn(len(bad)-16)
		if where == "last-block" && body > 0 {
			pos = 16 + body - 1 - rng.Intn(min(body, 200))
		}
		bad[pos] ^= 1 << rng.Intn(8)
		return []simnet.Delivery{{Data: bad, Src: d.Src, Dst: d.Dst, Tag: "bit-flipped:" + where}, {Data: d.Data, Src: d.Src, Dst: d.Dst, Tag: "genuine"}}
	})
	seq := uint32(0)
	sizes := []int{hdrLen, 199, 200, 201, 399, 400, 401, 599, 600, 601, 800, 1000, 1001, 1200, 1400, 2000, 4000}
	for _, n := range sizes {
		for _, wh := range []string{"last-block", "anywhere"} {
			where = wh
			for _, dir := range []byte{dirC2S, dirS2C} {
				wr, _ := s.end(dir)
				seq++
				id := msgID{s.idx, dir, 0, seq}
				m.wrote(id, n)
				if err := wr.WriteMsg(build(r.Seed, id, n)); err != nil {
					c.Violate("C03:write-fails-on-live-session:tamper-by-size", map[string]any{"len": n, "err": err.Error()})
					return
				}
			}
			bub.Settle(2 * time.Millisecond)
			drain(m, sessions, time.Millisecond)
			if c.Violated() {
				return
			}
		}
	}
	r.Count("evaluations", int64(seq))
	r.Count("messages_written", int64(seq))
	if miss := m.missing(func(msgID) bool { return true }); len(miss) > 0 {
		c.Violate("C03:unauthenticated-datagram-disturbed-session:message-lost", map[string]any{"missing": miss[:min(len(miss), 8)], "n_missing": len(miss)})
		return
	}
	r.Nontrivial(fmt.Sprintf("tamper-by-size|%d", i))
}

// shortBufferRun: a reader that offers buffers which are too short (and retries
// with a longer one, possibly still too short) gets an error, never a piece of
// a message; with a buffer that is long enough it gets the whole message.
func shortBufferRun(r *vh.Runner, c *vh.Case, i int) {
	rng := vh.NewRand(r.Seed, "c03-short", i)
	w, sessions, ok := setup(r, c, rng, 1)
	if !ok {
		teardown(w, sessions)
		return
	}
	defer teardown(w, sessions)
	s := sessions[0]
	for k := 0; k < 12 && !c.Violated(); k++ {
		dir := byte(rng.Intn(2))
		wr, rd := s.end(dir)
		n := hdrLen + rng.Pick(0, 10, 100, 500, 1000, 3000)
		id := msgID{s.idx, dir, 0, uint32(k + 1)}
		msg := build(r.Seed, id, n)
		if err := wr.WriteMsg(msg); err != nil {
			c.Inconclusive("write: " + err.Error())
			return
		}
		bub.Settle(2 * time.Millisecond)
		tries := []int{rng.Intn(n), n - 1 - rng.Intn(min(n-1, 40)), n - 1, n + rng.Intn(50)}
		if rng.Bool() {
			tries = tries[rng.Intn(3):]
		}
		for _, bl := range tries {
			buf := make([]byte, max(bl, 0))
			rd.SetReadDeadline(time.Now().Add(20 * time.Millisecond))
			got, err := rd.ReadMsg(buf)
			rd.SetReadDeadline(time.Time{})
			r.Count("evaluations", 1)
			r.Count("reads_with_chosen_buffer_length", 1)
			if err == nil && (got != n || !bytes.Equal(buf[:got], msg)) {
				c.Violate("C03:delivered-message-altered:short-read-buffer", map[string]any{"message_len": n, "buffer_len": bl, "returned": got})
				return
			}
			if err == nil {
				break
			}
			if bl >= n {
				c.Violate("C03:message-lost-on-faithful-network:after-short-read-buffers", map[string]any{"message_len": n, "buffer_len": bl, "err": err.Error()})
				return
			}
		}
	}
	r.Nontrivial(fmt.Sprintf("short-buffers|%d", i))
}

// handshakeDuplicatesRun: the network is faithful but duplicates: copies of the
// flow's own handshake datagrams reach the server again, from the genuine
// address, after the session is up (at once, and a few seconds later). Long
// after every handshake timer of the server has fired, messages written in
// both directions still arrive.
func handshakeDuplicatesRun(r *vh.Runner, c *vh.Case, i int) {
	rng := vh.NewRand(r.Seed, "c03-hsdup", i)
	w, sessions, ok := setup(r, c, rng, 1+rng.Intn(2))
	if !ok {
		teardown(w, sessions)
		return
	}
	defer teardown(w, sessions)
	var dups []simnet.Delivery
	for _, ev := range w.Net.LogSince(0) {
		if ev.Kind != "tx" || len(ev.Data) == 0 || ev.Dst != w.SrvAddr.String() {
			continue
		}
		switch ev.Data[0] {
		case 0x01, 0x03, 0x05, 0x08:
			for _, s := range sessions {
				if ev.Src == s.caddr.String() {
					dups = append(dups, simnet.Delivery{Data: append([]byte(nil), ev.Data...), Src: s.caddr, Dst: w.SrvAddr, Tag: fmt.Sprintf("duplicate-handshake-%#02x", ev.Data[0])})
				}
			}
		}
	}
	if len(dups) == 0 {
		c.Inconclusive("no handshake datagrams in the wire log")
		return
	}
	buf := make([]byte, 4096)
	round := uint32(0)
	exchange := func(when string) bool {
		round++
		for _, s := range sessions {
			for dir, pair := range [][2]mconn{{s.cl, s.h}, {s.h, s.cl}} {
				msg := build(r.Seed, msgID{s.idx, byte(dir), 0, round}, hdrLen+20)
				if err := pair[0].WriteMsg(msg); err != nil {
					c.Violate("C03:write-fails-on-live-session:duplicated-handshake-datagrams", map[string]any{"err": err.Error(), "when": when, "hidden": s.hidden})
					return false
				}
				pair[1].SetReadDeadline(time.Now().Add(2 * time.Second))
				n, err := pair[1].ReadMsg(buf)
				pair[1].SetReadDeadline(time.Time{})
				r.Count("evaluations", 1)
				if err != nil || !bytes.Equal(buf[:n], msg) {
					c.Violate("C03:message-lost-on-faithful-network:duplicated-handshake-datagrams", map[string]any{"direction": dir, "when": when, "hidden": s.hidden, "err": fmt.Sprint(err), "duplicates": len(dups)})
					return false
				}
			}
		}
		return true
	}
	if !exchange("before") {
		return
	}
	for _, wait := range []time.Duration{0, time.Duration(1+rng.Intn(4)) * time.Second} {
		time.Sleep(wait)
		for _, d := range dups {
			if rng.Chance(0.7) {
				w.Net.Inject(d)
				r.Count("handshake_datagrams_duplicated", 1)
			}
		}
		bub.Settle(10 * time.Millisecond)
		if !exchange("right-after-duplicates") {
			return
		}
	}
	for _, wait := range []time.Duration{3 * time.Second, 4 * time.Second, 20 * time.Second} {
		time.Sleep(wait)
		if !exchange("after-" + wait.String()) {
			return
		}
	}
	r.Nontrivial(fmt.Sprintf("hsdup|%d", i))
}

// hsLimitsRun: however the client's handshake was limited in time (a timeout,
// an absolute deadline, both, neither), the limit is over once the session is
// up: messages written long after it arrive, in both directions.
func hsLimitsRun(r *vh.Runner, c *vh.Case, i int) {
	rng := vh.NewRand(r.Seed, "c03-hslimits", i)
	cv := &transport.VerifyConfig{}
	w := fix.NewWorld(false, cv, nil)
	cv.Store = w.PKI.Store()
	defer w.Server.Close()
	id := w.PKI.Issue(certs.RawStringName("client"))
	shape := []string{"timeout-only", "deadline-only", "both", "neither"}[i%4]
	ep := w.Net.Listen(w.FreshAddr())
	cfg := fix.ClientConfig(id, w.VerifyServer(), 0, nil)
	if rng.Chance(0.3) {
		cfg.ServerKEMKey = &w.ServerID.KEM.Public
	}
	if shape == "timeout-only" || shape == "both" {
		cfg.HSTimeout = 2 * time.Second
	}
	if shape == "deadline-only" || shape == "both" {
		cfg.HSDeadline = time.Now().Add(time.Duration(1+rng.Intn(3)) * time.Second)
	}
	cl := transport.NewClient(ep, w.SrvAddr, cfg)
	if err := cl.Handshake(); err != nil {
		c.Inconclusive("handshake: " + err.Error())
		return
	}
	defer cl.Close()
	h, err := w.Server.AcceptTimeout(2 * time.Second)
	if err != nil {
		c.Inconclusive("accept: " + err.Error())
		return
	}
	buf := make([]byte, 4096)
	waits := []time.Duration{0, 5 * time.Second, time.Minute}
	if os.Getenv("VERIF_REALTIME") == "1" {
		waits = waits[:2]
	}
	for round, wait := range waits {
		time.Sleep(wait)
		for dir, pair := range [][2]mconn{{cl, h}, {h, cl}} {
			msg := build(r.Seed, msgID{0, byte(dir), 0, uint32(round + 1)}, hdrLen+20)
			if err := pair[0].WriteMsg(msg); err != nil {
				c.Violate("C03:write-fails-on-live-session:after-handshake-limit:"+shape, map[string]any{"err": err.Error(), "after": wait.String()})
				return
			}
			pair[1].SetReadDeadline(time.Now().Add(2 * time.Second))
			n, err := pair[1].ReadMsg(buf)
			pair[1].SetReadDeadline(time.Time{})
			r.Count("evaluations", 1)
			if err != nil || !bytes.Equal(buf[:n], msg) {
				c.Violate("C03:message-lost-on-faithful-network:after-handshake-limit:"+shape, map[string]any{"direction": dir, "after": wait.String(), "err": fmt.Sprint(err)})
				return
			}
		}
	}
	r.Count("handshake_limit_shapes:"+shape, 1)
	r.Nontrivial(fmt.Sprintf("hs-limits|%d", i))
}
