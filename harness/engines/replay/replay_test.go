// Engine replay: C14 — the replay filter accepts each fresh counter once and
// nothing stale. The real transport.SlidingWindow is driven along histories of
// Check/Mark calls and compared after every step with a set-based reference
// (DESIGN appendix B1).
package replay

import (
	"fmt"
	"testing"

	"hop.computer/hop/transport"

	"verif/harness/vh"
)

func TestEngine(t *testing.T) {
	vh.Main(t, map[string]func(*vh.Runner){"C14": genC14})
}

const window = 448

type model struct {
	seen map[uint64]struct{}
	top  uint64
	any  bool
}

func newModel() *model { return &model{seen: map[uint64]struct{}{}} }

func (m *model) check(c uint64) bool {
	if !m.any {
		return true
	}
	if _, dup := m.seen[c]; dup {
		return false
	}
	return c+window >= m.top
}

func (m *model) mark(c uint64) {
	if !m.check(c) {
		return
	}
	m.seen[c] = struct{}{}
	if c > m.top || !m.any {
		m.top = c
	}
	m.any = true
}

var deltas = []int64{-449, -448, -447, -65, -64, -63, -1, 0, 1, 63, 64, 65, 447, 448, 449, 511, 512, 513, 1000}

// hugeJumps: forward jumps whose block distance is a multiple of 2^32 (plus a
// few blocks): arithmetic narrower than 64 bits shows here and nowhere else.
var hugeJumps = []uint64{1 << 38, 1<<38 + 64, 1<<38 + 192, 1<<38 + 7*64, 3 << 38, 1<<39 + 128, 1 << 32, 1<<32 + 64, 1<<44 + 320}

type witness struct {
	Start    uint64   `json:"start"`
	History  []string `json:"history"`
	Counter  uint64   `json:"counter"`
	Top      uint64   `json:"top"`
	ImplSays bool     `json:"impl_check"`
	RefSays  bool     `json:"ref_check"`
}

// compareAll compares Check on the probe set; returns the first disagreement.
func compareAll(w *transport.SlidingWindow, m *model, probes []uint64) (uint64, bool) {
	for _, p := range probes {
		if w.Check(p) != m.check(p) {
			return p, true
		}
	}
	lo := uint64(0)
	if m.top > 520 {
		lo = m.top - 520
	}
	for c := lo; c <= m.top+2; c++ {
		if w.Check(c) != m.check(c) {
			return c, true
		}
	}
	return 0, false
}

func classify(m *model, c uint64, impl bool) string {
	_, dup := m.seen[c]
	switch {
	case impl && dup:
		return "C14:duplicate-accepted"
	case impl:
		return "C14:stale-accepted"
	case c > m.top:
		return "C14:fresh-above-top-rejected"
	default:
		return "C14:fresh-in-window-rejected"
	}
}

func genC14(r *vh.Runner) {
	starts := []uint64{0, 1, 63, 64, 448, 511, 512, 1<<32 - 1, 1<<32 + 1, 1<<63 - 2000}
	offs := []uint64{0, 1, 62, 63}
	maxLen := r.Pick(3, 4)
	for _, mode := range []string{"mark-if-accepted", "mark-always"} {
		for _, s0 := range starts {
			for _, off := range offs {
				start := s0 + off
				for first := range deltas {
					name := fmt.Sprintf("exh/%s/start=%d/d0=%d/len<=%d", mode, start, deltas[first], maxLen)
					r.Case(name, map[string]any{"mode": mode, "start": start, "first_delta": deltas[first], "max_len": maxLen}, func(c *vh.Case) {
						exhaust(r, c, mode, start, first, maxLen)
					})
				}
			}
		}
	}
	r.Case("exh/complete", nil, func(c *vh.Case) { r.Count("exhaustive_spaces_completed", 1) })

	nWalks := r.Pick(64, 16000)
	steps := r.Pick(20000, 100000)
	for i := 0; i < nWalks; i++ {
		r.Case(fmt.Sprintf("walk/%d", i), map[string]any{"walk": i, "steps": steps}, func(c *vh.Case) {
			walk(r, c, i, steps)
		})
	}
}

// exhaust enumerates every delta sequence of length <= maxLen that begins
// with deltas[first], from a window whose top has been marked at `start`.
func exhaust(r *vh.Runner, c *vh.Case, mode string, start uint64, first, maxLen int) {
	var evals, seqs int64
	seq := make([]int, 0, maxLen)
	var rec func(depth int)
	bad := false
	run := func() {
		var w transport.SlidingWindow
		m := newModel()
		hist := []string{}
		step := func(ctr uint64) bool {
			ok := w.Check(ctr)
			want := m.check(ctr)
			hist = append(hist, fmt.Sprintf("check(%d)=%v", ctr, ok))
			if ok != want {
				c.Violate(classify(m, ctr, ok), witness{start, hist, ctr, m.top, ok, want})
				return false
			}
			if ok || mode == "mark-always" {
				w.Mark(ctr)
				m.mark(ctr)
				hist = append(hist, fmt.Sprintf("mark(%d)", ctr))
			}
			probes := make([]uint64, 0, len(deltas))
			for _, d := range deltas {
				p := int64(m.top) + d
				if p >= 0 {
					probes = append(probes, uint64(p))
				}
			}
			evals += int64(len(probes)) + 523
			if p, diff := compareAll(&w, m, probes); diff {
				impl := w.Check(p)
				c.Violate(classify(m, p, impl), witness{start, hist, p, m.top, impl, !impl})
				return false
			}
			return true
		}
		if !step(start) {
			bad = true
			return
		}
		for _, di := range seq {
			n := int64(m.top) + deltas[di]
			if n < 0 {
				return
			}
			if !step(uint64(n)) {
				bad = true
				return
			}
		}
	}
	rec = func(depth int) {
		if bad {
			return
		}
		seqs++
		run()
		if depth == maxLen {
			return
		}
		for d := range deltas {
			seq = append(seq, d)
			rec(depth + 1)
			seq = seq[:len(seq)-1]
		}
	}
	seq = append(seq, first)
	rec(1)
	r.Count("evaluations", evals)
	r.Count("check_comparisons", evals)
	r.Count("exhaustive_sequences", seqs)
	r.NontrivialN(seqs)
	if first == 0 && start == 511 {
		r.Sample(map[string]any{"kind": "exhaustive", "mode": mode, "start": start, "first_delta": deltas[first], "sequences": seqs})
	}
}

func walk(r *vh.Runner, c *vh.Case, i, steps int) {
	rng := vh.NewRand(r.Seed, "c14-walk", i)
	var w transport.SlidingWindow
	m := newModel()
	base := []uint64{0, 1 << 20, 1<<32 - 300, 1 << 40, 1<<62 + 12345}[rng.Intn(5)]
	cur := base
	hist := make([]string, 0, 64)
	push := func(s string) {
		if len(hist) == 64 {
			copy(hist, hist[1:])
			hist = hist[:63]
		}
		hist = append(hist, s)
	}
	var evals int64
	for s := 0; s < steps; s++ {
		var ctr uint64
		switch k := rng.Intn(100); {
		case k < 40:
			ctr = m.top + 1
		case k < 60: // within the window, below top
			d := uint64(rng.Intn(460))
			if m.top >= d {
				ctr = m.top - d
			}
		case k < 70: // around the window edge
			d := uint64(440 + rng.Intn(80))
			if m.top >= d {
				ctr = m.top - d
			}
		case k < 85: // small forward jump
			ctr = m.top + uint64(rng.Intn(130))
		case k < 95: // block-sized forward jumps
			ctr = m.top + uint64(rng.Pick(63, 64, 65, 127, 128, 447, 448, 449, 511, 512, 513, 1024))
		case k < 97:
			ctr = m.top + uint64(rng.Intn(5000))
		case k < 98:
			// a huge jump (only once the ring holds something to go stale),
			// followed by in-window counters on the next steps
			if hj := hugeJumps[rng.Intn(len(hugeJumps))]; s > 600 && m.top < 1<<62 {
				ctr = m.top + hj
			} else {
				ctr = m.top + 1
			}
		default: // far below
			if m.top > 2000 {
				ctr = m.top - uint64(600+rng.Intn(1400))
			}
		}
		_ = cur
		ok := w.Check(ctr)
		want := m.check(ctr)
		evals++
		push(fmt.Sprintf("check(%d)=%v", ctr, ok))
		if ok != want {
			c.Violate(classify(m, ctr, ok), witness{base, hist, ctr, m.top, ok, want})
			break
		}
		authentic := rng.Chance(0.85)
		if ok && authentic {
			w.Mark(ctr)
			m.mark(ctr)
			push(fmt.Sprintf("mark(%d)", ctr))
			// keep the reference set bounded: forget entries far below the window
			if len(m.seen) > 4096 {
				for k := range m.seen {
					if k+2000 < m.top {
						delete(m.seen, k)
					}
				}
			}
		}
		if s%97 == 0 {
			evals += 523
			if p, diff := compareAll(&w, m, nil); diff {
				impl := w.Check(p)
				c.Violate(classify(m, p, impl), witness{base, hist, p, m.top, impl, !impl})
				break
			}
		}
	}
	r.Count("evaluations", evals)
	r.Count("check_comparisons", evals)
	r.Count("walk_steps", int64(steps))
	r.Nontrivial(fmt.Sprintf("walk|%d|%d", i, r.Seed))
	if i == 0 {
		r.Sample(map[string]any{"kind": "walk", "base": base, "steps": steps, "last_events": hist[max(0, len(hist)-6):]})
	}
}
