package dbg

import (
	"fmt"
	"io"
	"testing"
	"testing/synctest"
	"time"

	"github.com/sirupsen/logrus"
	"hop.computer/hop/tubes"
	"verif/harness/msgnet"
)

func ql() *logrus.Entry { l := logrus.New(); l.SetOutput(io.Discard); return logrus.NewEntry(l) }

func TestDbg(t *testing.T) {
	synctest.Test(t, func(t *testing.T) {
		nw := msgnet.NewPair()
		A := tubes.Client(nw.A, &tubes.Config{Timeout: 30 * time.Second, Log: ql()})
		B := tubes.Server(nw.B, &tubes.Config{Timeout: 30 * time.Second, Log: ql()})
		start := time.Now()
		nw.SetPolicy(func(dir, seq int, data []byte) []msgnet.Delivery {
			fmt.Printf("%8s dir=%d id=%d flags=%06b len=%d ack=%d frame=%d\n", time.Since(start), dir, data[0], data[1], int(data[2])<<8|int(data[3]), uint32(data[4])<<24|uint32(data[5])<<16|uint32(data[6])<<8|uint32(data[7]), func() uint32 { if len(data) >= 12 { return uint32(data[8])<<24 | uint32(data[9])<<16 | uint32(data[10])<<8 | uint32(data[11]) }; return 0 }())
			return []msgnet.Delivery{{Data: data}}
		})
		a, _ := A.CreateReliableTube(5)
		bt, _ := B.Accept()
		b := bt.(*tubes.Reliable)
		// keepalive
		go func() { for { if _, err := a.Write(nil); err != nil { return }; time.Sleep(5 * time.Second) } }()
		a2, _ := A.CreateReliableTube(6)
		bt2, _ := B.Accept()
		b2 := bt2.(*tubes.Reliable)
		_ = b
		go func() {
			b2.Close()
			t0 := time.Now()
			b2.WaitForClose()
			fmt.Println("B WaitForClose took", time.Since(t0))
		}()
		go func() {
			buf := make([]byte, 10)
			a2.Read(buf)
			a2.Write(make([]byte, 5000))
			time.Sleep(time.Millisecond)
			a2.SetReadDeadline(time.Now().Add(20 * time.Millisecond))
			a2.Read(buf)
			a2.Close()
			fmt.Println("A closed at", time.Since(start))
		}()
		time.Sleep(100 * time.Second)
		fmt.Printf("A info %+v\nB info %+v\n", a2.VerifInfo(), b2.VerifInfo())
		go A.Stop()
		B.Stop()
	})
}
