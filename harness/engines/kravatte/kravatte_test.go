// Engine kravatte: C12 — Kravatte-SANSE AEAD is correct, tamper-evident and
// sensitive to the whole key. The real cipher.AEAD from kravatte.NewSANSE and
// the raw Kravatte.Kra/Vatte are compared call by call with the harness
// reference (ref.Kravatte / ref.SANSE), which is anchored on every run to
// crypto/sha3 and to the repository's three XKCP transcripts.
package kravatte

import (
	"bufio"
	"bytes"
	"crypto/cipher"
	"crypto/sha3"
	"encoding/hex"
	"errors"
	"fmt"
	"os"
	"strconv"
	"strings"
	"testing"

	"hop.computer/hop/kravatte"

	"verif/harness/ref"
	"verif/harness/vh"
)

func TestEngine(t *testing.T) {
	vh.Main(t, map[string]func(*vh.Runner){"C12": genC12})
}

type entry struct {
	action string
	n      int
	b      []byte
}

func parseTranscript(path string) ([]entry, error) {
	f, err := os.Open(path)
	if err != nil {
		return nil, err
	}
	defer f.Close()
	sc := bufio.NewScanner(f)
	sc.Buffer(nil, 4<<20)
	var out []entry
	for sc.Scan() {
		line := strings.TrimSpace(sc.Text())
		if line == "" {
			continue
		}
		colon := strings.Index(line, ":")
		head := line[:colon]
		lb := strings.Index(head, "[")
		e := entry{action: head[:lb], n: -1}
		if num := head[lb+1 : len(head)-1]; num != "" {
			e.n, err = strconv.Atoi(num)
			if err != nil {
				return nil, err
			}
		}
		e.b, err = hex.DecodeString(strings.ReplaceAll(strings.TrimSpace(line[colon+1:]), " ", ""))
		if err != nil {
			return nil, err
		}
		out = append(out, e)
	}
	return out, nil
}

func anchors(r *vh.Runner) error {
	rng := vh.NewRand(1, "anchor")
	for _, n := range []int{0, 1, 135, 136, 137, 500} {
		msg := rng.Bytes(n)
		if ref.SHA3_256(msg) != sha3.Sum256(msg) {
			return fmt.Errorf("reference Keccak-p anchor failed against crypto/sha3 at len %d", n)
		}
	}
	checked := 0
	for _, file := range []string{"xkcp-kravatte.txt", "xkcp.txt"} {
		es, err := parseTranscript("/repo/kravatte/testdata/" + file)
		if err != nil {
			return err
		}
		var kv *ref.Kravatte
		var pending []byte
		outOff := 0
		var kravat []byte
		for i, e := range es {
			switch e.action {
			case "key":
				kv = ref.NewKravatte(e.b)
			case "in":
				pending = append(pending, e.b...)
			case "last":
				pending = append(pending, e.b...)
				kv.Absorb(pending)
				pending, outOff = nil, 0
			case "inbits":
				kv.AbsorbBitsXKCP(e.b, e.n)
				outOff = 0
			case "out":
				if got := kv.Expand(outOff, e.n); !bytes.Equal(got, e.b) {
					return fmt.Errorf("%s entry %d: reference out mismatch", file, i)
				}
				outOff += e.n
				checked++
			case "kravatin":
				kv.Absorb(e.b)
				kravat = kv.Expand(0, 16)
				outOff = 0
			case "kravatout":
				if !bytes.Equal(kravat, e.b) {
					return fmt.Errorf("%s entry %d: reference kravatout mismatch", file, i)
				}
				checked++
			case "dumpK":
				if !bytes.Equal(kv.K[:], e.b) {
					return fmt.Errorf("%s entry %d: reference mask mismatch", file, i)
				}
				checked++
			case "dumpX":
				if len(pending) == 0 && !bytes.Equal(kv.X[:], e.b) {
					return fmt.Errorf("%s entry %d: reference accumulator mismatch", file, i)
				}
				checked++
			}
		}
	}
	es, err := parseTranscript("/repo/kravatte/testdata/xkcp-sanse.txt")
	if err != nil {
		return err
	}
	var s *ref.SANSE
	var pt, ad, tag []byte
	for i, e := range es {
		switch e.action {
		case "key":
			s = ref.NewSANSE(e.b)
		case "plaintext":
			pt = e.b
		case "ad":
			ad = e.b
		case "wrap":
			var ct []byte
			ct, tag = s.Wrap(ad, pt)
			if !bytes.Equal(ct, e.b) {
				return fmt.Errorf("sanse entry %d: reference ciphertext mismatch", i)
			}
			checked++
		case "tag":
			if !bytes.Equal(tag, e.b) {
				return fmt.Errorf("sanse entry %d: reference tag mismatch", i)
			}
			checked++
		}
	}
	if checked < 10 {
		return errors.New("too few anchor comparisons")
	}
	r.Count("anchor_comparisons", int64(checked))
	return nil
}

// guardBuf returns a buffer of n bytes with spare capacity `spare`, embedded
// in a canary-filled array.
type gbuf struct {
	whole []byte
	off   int
	n     int
	spare int
}

func newGbuf(n, spare int, fill []byte) *gbuf {
	g := &gbuf{whole: bytes.Repeat([]byte{0xEE}, 32+n+spare+32), off: 32, n: n, spare: spare}
	copy(g.whole[32:], fill)
	return g
}
func (g *gbuf) bytes() []byte { return g.whole[g.off : g.off+g.n : g.off+g.n+g.spare] }
func (g *gbuf) canariesOK() bool {
	for i := 0; i < 32; i++ {
		if g.whole[i] != 0xEE || g.whole[len(g.whole)-1-i] != 0xEE {
			return false
		}
	}
	return true
}

func seal(a cipher.AEAD, dst, pt, ad []byte) (out []byte, pan string) {
	defer func() {
		if x := recover(); x != nil {
			pan = fmt.Sprint(x)
		}
	}()
	return a.Seal(dst, nil, pt, ad), ""
}

func open(a cipher.AEAD, dst, ct, ad []byte) (out []byte, err error, pan string) {
	defer func() {
		if x := recover(); x != nil {
			pan = fmt.Sprint(x)
		}
	}()
	out, err = a.Open(dst, nil, ct, ad)
	return
}

var gridLens = []int{0, 1, 31, 32, 33, 199, 200, 201, 399, 400, 401, 599, 600, 601, 1000, 4096}
var bigLens = []int{64507, 65535}

func genC12(r *vh.Runner) {
	if !r.Require("anchors", func() error { return anchors(r) }) {
		return
	}
	// (a) every key length 1..199 (200 and more refused), random values
	r.Case("keylens", nil, func(c *vh.Case) {
		rng := vh.NewRand(r.Seed, "c12-keylens")
		// key length 0 is outside the property's range (1..199) and is not driven
		for kl := 1; kl <= 210; kl++ {
			key := rng.Bytes(kl)
			a, err := kravatte.NewSANSE(key)
			r.Count("evaluations", 1)
			if kl >= 200 {
				if err == nil {
					c.Violate("C12:key-length-not-refused", map[string]any{"key_len": kl})
				}
				continue
			}
			if err != nil {
				c.Violate("C12:key-length-refused", map[string]any{"key_len": kl, "err": err.Error()})
				continue
			}
			pt, ad := rng.Bytes(rng.Pick(0, 1, 40, 200)), rng.Bytes(rng.Pick(0, 1, 40))
			compareSeal(r, c, a, ref.NewSANSE(key), key, pt, ad, "keylen")
			r.Nontrivial(fmt.Sprintf("kl|%d", kl))
		}
	})
	// (b) length grid |P| x |A|
	lens := gridLens
	for _, pl := range lens {
		r.Case(fmt.Sprintf("grid/P=%d", pl), map[string]any{"plen": pl}, func(c *vh.Case) {
			rng := vh.NewRand(r.Seed, "c12-grid", pl)
			for _, al := range lens {
				key := rng.Bytes(rng.Pick(16, 32, 16, 32, 24, 64))
				a, _ := kravatte.NewSANSE(key)
				pt, ad := rng.Bytes(pl), rng.Bytes(al)
				compareRoundTrip(r, c, a, key, pt, ad, "grid")
				r.Nontrivial(fmt.Sprintf("grid|%d|%d", pl, al))
			}
		})
	}
	if r.Thorough() {
		for _, pl := range bigLens {
			for _, al := range append([]int{0, 1, 200}, bigLens...) {
				r.Case(fmt.Sprintf("big/P=%d/A=%d", pl, al), map[string]any{"plen": pl, "alen": al}, func(c *vh.Case) {
					rng := vh.NewRand(r.Seed, "c12-big", pl, al)
					key := rng.Bytes(32)
					a, _ := kravatte.NewSANSE(key)
					compareRoundTrip(r, c, a, key, rng.Bytes(pl), rng.Bytes(al), "big")
					r.Nontrivial(fmt.Sprintf("big|%d|%d", pl, al))
				})
			}
		}
	}
	// (c) multi-message sessions with failing opens in the middle
	ns := r.Pick(48, 100000)
	for b := 0; b < ns; b++ {
		r.Case(fmt.Sprintf("session/%d", b), map[string]any{"batch": b}, func(c *vh.Case) {
			rng := vh.NewRand(r.Seed, "c12-session", b)
			for k := 0; k < 20; k++ {
				session(r, c, rng, b == 0 && k == 0)
				r.Nontrivial(fmt.Sprintf("sess|%d|%d", b, k))
			}
		})
	}
	// (d) single-bit tamper rejection, exhaustive over bit positions
	small := []int{0, 1, 7, 8, 9, 31, 32, 33, 63, 64}
	if !r.Thorough() {
		small = []int{0, 1, 8, 31, 32, 33, 64}
	}
	for _, pl := range small {
		for _, al := range small {
			r.Case(fmt.Sprintf("flip/P=%d/A=%d", pl, al), map[string]any{"plen": pl, "alen": al}, func(c *vh.Case) {
				flips(r, c, pl, al, -1)
			})
		}
	}
	for _, pl := range []int{200, 201, 1000, 4096} {
		r.Case(fmt.Sprintf("flip-sampled/P=%d", pl), map[string]any{"plen": pl}, func(c *vh.Case) {
			flips(r, c, pl, pl/2+1, r.Pick(200, 2000))
		})
	}
	// (e) every key byte influences the output
	maxExh := r.Pick(64, 199)
	for kl := 1; kl <= 199; kl++ {
		if kl > maxExh && kl%16 != 7 && kl != 199 {
			continue
		}
		r.Case(fmt.Sprintf("keybytes/%d", kl), map[string]any{"key_len": kl}, func(c *vh.Case) { keyBytes(r, c, kl) })
	}
	// (f) aliasing patterns
	na := r.Pick(32, 64000)
	for b := 0; b < na; b++ {
		r.Case(fmt.Sprintf("alias/%d", b), map[string]any{"batch": b}, func(c *vh.Case) {
			rng := vh.NewRand(r.Seed, "c12-alias", b)
			for k := 0; k < 20; k++ {
				aliasing(r, c, rng, b == 0 && k == 0)
				r.Nontrivial(fmt.Sprintf("alias|%d|%d", b, k))
			}
		})
	}
	// (g) raw Kra/Vatte with split inputs
	nr := r.Pick(32, 64000)
	for b := 0; b < nr; b++ {
		r.Case(fmt.Sprintf("raw/%d", b), map[string]any{"batch": b}, func(c *vh.Case) {
			rng := vh.NewRand(r.Seed, "c12-raw", b)
			for k := 0; k < 20; k++ {
				raw(r, c, rng, b == 0 && k == 0)
				r.Nontrivial(fmt.Sprintf("raw|%d|%d", b, k))
			}
		})
	}
}

// compareSeal: one Seal on a fresh instance against the reference.
func compareSeal(r *vh.Runner, c *vh.Case, a cipher.AEAD, s *ref.SANSE, key, pt, ad []byte, label string) []byte {
	out, pan := seal(a, nil, pt, ad)
	r.Count("evaluations", 1)
	r.Count("seal_compared", 1)
	d := func() map[string]any {
		return map[string]any{"label": label, "key_len": len(key), "key": vh.Hex(key), "plen": len(pt), "alen": len(ad)}
	}
	if pan != "" {
		c.Violate("C12:panic:Seal", map[string]any{"case": d(), "panic": pan})
		return nil
	}
	ct, tag := s.Wrap(ad, pt)
	want := append(ct, tag...)
	if !bytes.Equal(out, want) {
		m := d()
		m["impl"], m["ref"] = vh.HexCap(out, 48), vh.HexCap(want, 48)
		cls := "keylen-multiple-of-8"
		if len(key)%8 != 0 {
			cls = "keylen-not-multiple-of-8"
		}
		c.Violate("C12:seal-differs-from-reference:"+cls, m)
		return nil
	}
	return out
}

func compareRoundTrip(r *vh.Runner, c *vh.Case, a cipher.AEAD, key, pt, ad []byte, label string) {
	out := compareSeal(r, c, a, ref.NewSANSE(key), key, pt, ad, label)
	if out == nil {
		return
	}
	b, _ := kravatte.NewSANSE(key)
	got, err, pan := open(b, nil, out, ad)
	r.Count("evaluations", 1)
	r.Count("open_compared", 1)
	if pan != "" || err != nil || !bytes.Equal(got, pt) {
		c.Violate("C12:open-does-not-invert-seal", map[string]any{"label": label, "key_len": len(key), "plen": len(pt), "alen": len(ad), "err": fmt.Sprint(err), "panic": pan})
	}
}

// session: sender and receiver instances exchange 1-20 messages; some are
// tampered in flight; every output is compared with the reference pair.
func session(r *vh.Runner, c *vh.Case, rng *vh.Rand, sample bool) {
	key := rng.Bytes(rng.Pick(16, 32, 32, 48, 199, 8))
	snd, _ := kravatte.NewSANSE(key)
	rcv, _ := kravatte.NewSANSE(key)
	rs, rr := ref.NewSANSE(key), ref.NewSANSE(key)
	n := 1 + rng.Intn(20)
	var trace []string
	for i := 0; i < n; i++ {
		pl := rng.Pick(0, 0, 1, 15, 16, 100, 199, 200, 201, 500, 1500)
		al := rng.Pick(0, 0, 1, 12, 16, 200, 333)
		pt, ad := rng.Bytes(pl), rng.Bytes(al)
		out, pan := seal(snd, nil, pt, ad)
		ct, tag := rs.Wrap(ad, pt)
		want := append(ct, tag...)
		r.Count("evaluations", 1)
		r.Count("session_calls", 1)
		trace = append(trace, fmt.Sprintf("seal(P=%d,A=%d)", pl, al))
		if pan != "" || !bytes.Equal(out, want) {
			c.Violate("C12:session:seal-differs-from-reference", map[string]any{"key_len": len(key), "trace": trace, "panic": pan, "impl": vh.HexCap(out, 32), "ref": vh.HexCap(want, 32)})
			return
		}
		tampered := rng.Chance(0.25)
		msg := append([]byte{}, out...)
		adr := append([]byte{}, ad...)
		if tampered {
			if len(adr) > 0 && rng.Bool() {
				adr[rng.Intn(len(adr))] ^= 1 << uint(rng.Intn(8))
			} else {
				msg[rng.Intn(len(msg))] ^= 1 << uint(rng.Intn(8))
			}
		}
		got, err, pan := open(rcv, nil, msg, adr)
		wpt, wok := rr.Unwrap(adr, msg[:len(msg)-32], msg[len(msg)-32:])
		r.Count("evaluations", 1)
		r.Count("session_calls", 1)
		trace = append(trace, fmt.Sprintf("open(tampered=%v)", tampered))
		if pan != "" {
			c.Violate("C12:panic:Open", map[string]any{"key_len": len(key), "trace": trace, "panic": pan})
			return
		}
		if tampered {
			r.Count("session_tampered_opens", 1)
			if err == nil {
				c.Violate("C12:tampered-open-succeeds:session", map[string]any{"key_len": len(key), "trace": trace})
				return
			}
			if wok {
				c.Inconclusive("reference accepted a tampered message")
				return
			}
			// a lost/failed message desynchronises sender and receiver by
			// design; resynchronise the sender-side *objects* by feeding the
			// same failing message through a second receiver? No: the
			// property compares with the reference call by call, and the
			// reference pair has advanced identically, so just go on.
			continue
		}
		if err != nil || !bytes.Equal(got, pt) || !wok || !bytes.Equal(wpt, pt) {
			// after an earlier failed open the two directions are out of
			// sync in implementation AND reference alike: only disagreement
			// between them is a violation
			if (err == nil) != wok || (err == nil && !bytes.Equal(got, wpt)) {
				c.Violate("C12:session:open-differs-from-reference", map[string]any{"key_len": len(key), "trace": trace, "impl_err": fmt.Sprint(err), "ref_ok": wok})
				return
			}
		}
	}
	if sample {
		r.Sample(map[string]any{"kind": "session", "key_len": len(key), "trace": trace})
	}
}

func flips(r *vh.Runner, c *vh.Case, pl, al, sampleN int) {
	rng := vh.NewRand(r.Seed, "c12-flip", pl, al)
	key := rng.Bytes(rng.Pick(16, 32))
	pt, ad := rng.Bytes(pl), rng.Bytes(al)
	a, _ := kravatte.NewSANSE(key)
	out, pan := seal(a, nil, pt, ad)
	if pan != "" {
		c.Violate("C12:panic:Seal", map[string]any{"panic": pan, "plen": pl, "alen": al})
		return
	}
	// control
	b, _ := kravatte.NewSANSE(key)
	if got, err, _ := open(b, nil, out, ad); err != nil || !bytes.Equal(got, pt) {
		c.Violate("C12:open-does-not-invert-seal", map[string]any{"plen": pl, "alen": al, "err": fmt.Sprint(err)})
		return
	}
	total := (len(out) + len(ad)) * 8
	try := func(bit int) {
		msg := append([]byte{}, out...)
		adr := append([]byte{}, ad...)
		region := ""
		if bit < len(out)*8 {
			msg[bit/8] ^= 1 << uint(bit%8)
			region = "ciphertext"
			if bit/8 >= len(out)-32 {
				region = "tag"
			}
		} else {
			k := bit - len(out)*8
			adr[k/8] ^= 1 << uint(k%8)
			region = "associated-data"
		}
		b, _ := kravatte.NewSANSE(key)
		// every fourth rejected message is opened behind data the caller
		// already holds in dst (with room to append in place): a refused
		// message must leave that data as it was
		var dst, held []byte
		if bit%4 == 1 {
			held = rng.Bytes(1 + rng.Intn(40))
			dst = append(make([]byte, 0, len(held)+len(msg)+64), held...)
		}
		got, err, pan := open(b, dst, msg, adr)
		r.Count("evaluations", 1)
		r.Count("bitflip_opens", 1)
		if dst != nil && pan == "" {
			r.Count("bitflip_opens_behind_held_data", 1)
			if !bytes.Equal(dst[:len(held)], held) {
				c.Violate("C12:refused-open-alters-data-held-in-dst", map[string]any{"plen": pl, "alen": al, "bit": bit, "held": vh.Hex(held), "now": vh.Hex(dst[:len(held)])})
			}
		}
		if pan != "" {
			c.Violate("C12:panic:Open", map[string]any{"plen": pl, "alen": al, "bit": bit, "panic": pan})
		} else if err == nil {
			c.Violate("C12:tampered-open-succeeds:"+region, map[string]any{"plen": pl, "alen": al, "bit": bit, "region": region, "key": vh.Hex(key), "returned": vh.HexCap(got, 32)})
		}
	}
	if sampleN < 0 {
		for bit := 0; bit < total; bit++ {
			try(bit)
		}
		r.NontrivialN(int64(total))
	} else {
		// always include first/last bit of each region
		for _, bit := range []int{0, len(out)*8 - 257, len(out)*8 - 256, len(out)*8 - 1, len(out) * 8, total - 1} {
			if bit >= 0 && bit < total {
				try(bit)
			}
		}
		for i := 0; i < sampleN; i++ {
			try(rng.Intn(total))
		}
		r.Nontrivial(fmt.Sprintf("flip-sampled|%d|%d", pl, al))
	}
	if pl == 32 && al == 32 {
		r.Sample(map[string]any{"kind": "bitflips", "plen": pl, "alen": al, "bits_flipped": total})
	}
}

func keyBytes(r *vh.Runner, c *vh.Case, kl int) {
	rng := vh.NewRand(r.Seed, "c12-keybytes", kl)
	key := rng.Bytes(kl)
	pt, ad := rng.Bytes(48), rng.Bytes(16)
	a, _ := kravatte.NewSANSE(key)
	base, pan := seal(a, nil, pt, ad)
	if pan != "" {
		c.Violate("C12:panic:Seal", map[string]any{"panic": pan, "key_len": kl})
		return
	}
	var dead []int
	for i := 0; i < kl; i++ {
		k2 := append([]byte{}, key...)
		k2[i] ^= byte(1 + rng.Intn(255))
		a2, _ := kravatte.NewSANSE(k2)
		out, _ := seal(a2, nil, pt, ad)
		r.Count("evaluations", 1)
		r.Count("key_byte_flips", 1)
		if bytes.Equal(out, base) {
			dead = append(dead, i)
		}
	}
	r.NontrivialN(int64(kl))
	if len(dead) > 0 {
		cls := "keylen-multiple-of-8"
		if kl%8 != 0 {
			cls = "keylen-not-multiple-of-8"
		}
		c.Violate("C12:key-byte-without-influence:"+cls, map[string]any{"key_len": kl, "dead_byte_indices": dead, "key": vh.Hex(key)})
	}
}

func aliasing(r *vh.Runner, c *vh.Case, rng *vh.Rand, sample bool) {
	key := rng.Bytes(rng.Pick(16, 32))
	pl := rng.Pick(0, 1, 16, 100, 200, 201, 600)
	al := rng.Pick(0, 1, 16, 64, 200)
	pt, ad := rng.Bytes(pl), rng.Bytes(al)
	a0, _ := kravatte.NewSANSE(key)
	want, _ := seal(a0, nil, pt, ad)
	pattern := rng.Intn(10)
	names := []string{"seal dst=pt[:0]", "open dst=ct[:0]", "seal dst=prefix+append", "seal dst overlaps ad", "open dst overlaps ad", "seal dst spare capacity shifted +32",
		"seal in place behind a header", "open in place behind a header",
		"seal dst=prefix without spare capacity", "open dst=prefix without spare capacity"}
	r.Count("evaluations", 1)
	r.Count("alias_calls", 1)
	r.Count("alias:"+names[pattern], 1)
	fail := func(what string, extra map[string]any) {
		m := map[string]any{"pattern": names[pattern], "plen": pl, "alen": al, "what": what}
		for k, v := range extra {
			m[k] = v
		}
		c.Violate("C12:aliasing:"+names[pattern]+":"+what, m)
	}
	switch pattern {
	case 0: // dst = pt[:0] with room for the tag
		g := newGbuf(pl, 32, pt)
		a, _ := kravatte.NewSANSE(key)
		out, pan := seal(a, g.bytes()[:0], g.bytes(), ad)
		if pan != "" {
			fail("panic", map[string]any{"panic": pan})
		} else if !bytes.Equal(out, want) {
			fail("wrong-output", nil)
		} else if !g.canariesOK() {
			fail("canary", nil)
		}
	case 1: // open with dst = ct[:0]
		g := newGbuf(len(want), 0, want)
		a, _ := kravatte.NewSANSE(key)
		out, err, pan := open(a, g.bytes()[:0], g.bytes(), ad)
		if pan != "" {
			fail("panic", map[string]any{"panic": pan})
		} else if err != nil || !bytes.Equal(out, pt) {
			fail("wrong-output", map[string]any{"err": fmt.Sprint(err)})
		} else if !g.canariesOK() {
			fail("canary", nil)
		}
	case 2: // dst with existing prefix, appended in place (spare capacity)
		prefix := rng.Bytes(rng.Pick(0, 1, 12, 100))
		g := newGbuf(len(prefix), len(want)+rng.Intn(8), prefix)
		a, _ := kravatte.NewSANSE(key)
		out, pan := seal(a, g.bytes(), pt, ad)
		if pan != "" {
			fail("panic", map[string]any{"panic": pan})
		} else if !bytes.Equal(out, append(append([]byte{}, prefix...), want...)) {
			fail("wrong-output", nil)
		} else if !g.canariesOK() {
			fail("canary", nil)
		}
	case 3: // seal: dst overlaps the associated data buffer
		size := max(al, len(want))
		g := newGbuf(size, 0, ad)
		a, _ := kravatte.NewSANSE(key)
		out, pan := seal(a, g.bytes()[:0], pt, g.bytes()[:al])
		if pan != "" {
			fail("panic", map[string]any{"panic": pan})
		} else if !bytes.Equal(out, want) {
			fail("wrong-output", nil)
		} else if !g.canariesOK() {
			fail("canary", nil)
		}
	case 4: // open: dst overlaps the associated data buffer
		size := max(al, pl)
		g := newGbuf(size, 0, ad)
		a, _ := kravatte.NewSANSE(key)
		out, err, pan := open(a, g.bytes()[:0], want, g.bytes()[:al])
		if pan != "" {
			fail("panic", map[string]any{"panic": pan})
		} else if err != nil || !bytes.Equal(out, pt) {
			fail("wrong-output", map[string]any{"err": fmt.Sprint(err)})
		} else if !g.canariesOK() {
			fail("canary", nil)
		}
	case 5: // plaintext and dst in one buffer, dst starting after the plaintext
		g := newGbuf(pl, len(want), pt)
		a, _ := kravatte.NewSANSE(key)
		out, pan := seal(a, g.bytes()[:pl], g.bytes(), ad) // append after the plaintext itself
		if pan != "" {
			fail("panic", map[string]any{"panic": pan})
		} else if !bytes.Equal(out, append(append([]byte{}, pt...), want...)) {
			fail("wrong-output", nil)
		} else if !g.canariesOK() {
			fail("canary", nil)
		}
	case 8, 9: // dst holds bytes of the caller and has no room: the result is a new slice that still starts with them
		prefix := rng.Bytes(rng.Pick(1, 7, 32, 300))
		dst := append(make([]byte, 0, len(prefix)+rng.Pick(0, 0, 1, 5)), prefix...)
		a, _ := kravatte.NewSANSE(key)
		if pattern == 8 {
			out, pan := seal(a, dst, pt, ad)
			if pan != "" {
				fail("panic", map[string]any{"panic": pan})
			} else if !bytes.Equal(out, append(append([]byte{}, prefix...), want...)) {
				fail("wrong-output", map[string]any{"prefix": len(prefix), "cap": cap(dst)})
			}
		} else {
			out, err, pan := open(a, dst, want, ad)
			if pan != "" {
				fail("panic", map[string]any{"panic": pan})
			} else if err != nil || !bytes.Equal(out, append(append([]byte{}, prefix...), pt...)) {
				fail("wrong-output", map[string]any{"err": fmt.Sprint(err), "prefix": len(prefix), "cap": cap(dst)})
			}
		}
	case 6, 7: // one packet buffer: header (also the associated data), then the payload sealed / opened in place
		h := rng.Pick(1, 8, 16, 100, 200)
		hdr := rng.Bytes(h)
		a1, _ := kravatte.NewSANSE(key)
		want2, _ := seal(a1, nil, pt, hdr)
		a, _ := kravatte.NewSANSE(key)
		if pattern == 6 {
			g := newGbuf(h+pl, 32, append(append([]byte{}, hdr...), pt...))
			b := g.bytes()
			out, pan := seal(a, b[:h], b[h:h+pl], b[:h])
			if pan != "" {
				fail("panic", map[string]any{"panic": pan})
			} else if !bytes.Equal(out, append(append([]byte{}, hdr...), want2...)) {
				fail("wrong-output", map[string]any{"hdr": h})
			} else if !g.canariesOK() {
				fail("canary", nil)
			}
		} else {
			g := newGbuf(h+len(want2), 0, append(append([]byte{}, hdr...), want2...))
			b := g.bytes()
			out, err, pan := open(a, b[:h], b[h:], b[:h])
			if pan != "" {
				fail("panic", map[string]any{"panic": pan})
			} else if err != nil || !bytes.Equal(out, append(append([]byte{}, hdr...), pt...)) {
				fail("wrong-output", map[string]any{"err": fmt.Sprint(err), "hdr": h})
			} else if !g.canariesOK() {
				fail("canary", nil)
			}
		}
	}
	if sample {
		r.Sample(map[string]any{"kind": "aliasing", "pattern": names[pattern], "plen": pl, "alen": al})
	}
}

type guardedKv struct {
	pre  [64]byte
	kv   kravatte.Kravatte
	post [64]byte
}

// raw drives Kravatte.Kra / Vatte directly with split inputs and outputs.
func raw(r *vh.Runner, c *vh.Case, rng *vh.Rand, sample bool) {
	key := rng.Bytes(rng.Pick(16, 32, 40, 8))
	g := &guardedKv{}
	for i := range g.pre {
		g.pre[i], g.post[i] = 0x77, 0x88
	}
	if g.kv.RefMaskInitialize(key) != 0 {
		c.Violate("C12:raw:key-refused", map[string]any{"key_len": len(key)})
		return
	}
	kv := ref.NewKravatte(key)
	var trace []string
	fault := func(sig string, extra map[string]any) {
		m := map[string]any{"key_len": len(key), "key": vh.Hex(key), "trace": trace}
		for k, v := range extra {
			m[k] = v
		}
		c.Violate(sig, m)
	}
	nstr := 1 + rng.Intn(3)
	for s := 0; s < nstr; s++ {
		// one input string in 1-4 pieces
		np := 1 + rng.Intn(4)
		var whole []byte
		for p := 0; p < np; p++ {
			n := rng.Pick(0, 1, 43, 199, 200, 201, 400, 57, 143)
			piece := rng.Bytes(n)
			last := p == np-1
			bitsN := 8 * n
			flags := kravatte.FlagNone
			if last {
				flags = kravatte.FlagLastPart
				if n > 0 && rng.Chance(0.3) {
					bitsN -= 1 + rng.Intn(7)
					// XKCP-style API precondition: unused high bits are zero
					piece[n-1] &= byte((1 << uint(bitsN%8)) - 1)
				}
			}
			trace = append(trace, fmt.Sprintf("Kra(%d bits, last=%v)", bitsN, last))
			ret := -1
			pan := ""
			func() {
				defer func() {
					if x := recover(); x != nil {
						pan = fmt.Sprint(x)
					}
				}()
				ret = g.kv.Kra(piece, bitsN, flags)
			}()
			r.Count("evaluations", 1)
			r.Count("raw_calls", 1)
			if pan != "" {
				fault("C12:raw:panic:Kra", map[string]any{"panic": pan})
				return
			}
			if ret != 0 {
				fault("C12:raw:Kra-error", map[string]any{"ret": ret})
				return
			}
			whole = append(whole, piece...)
			if last {
				kv.AbsorbBits(whole, 8*(len(whole)-n)+bitsN)
			}
		}
		// output in 1-3 pieces
		no := 1 + rng.Intn(3)
		off := 0
		for o := 0; o < no; o++ {
			n := rng.Pick(1, 16, 32, 199, 200, 201, 450)
			out := bytes.Repeat([]byte{0xDD}, n+16)
			trace = append(trace, fmt.Sprintf("Vatte(%d bytes)", n))
			ret := -1
			pan := ""
			func() {
				defer func() {
					if x := recover(); x != nil {
						pan = fmt.Sprint(x)
					}
				}()
				ret = g.kv.Vatte(out[:n], 8*n, kravatte.FlagNone)
			}()
			r.Count("evaluations", 1)
			r.Count("raw_calls", 1)
			if pan != "" {
				fault("C12:raw:panic:Vatte", map[string]any{"panic": pan})
				return
			}
			want := kv.Expand(off, n)
			off += n
			if ret != 0 || !bytes.Equal(out[:n], want) {
				fault("C12:raw:output-differs-from-reference", map[string]any{"ret": ret, "impl": vh.HexCap(out[:n], 32), "ref": vh.HexCap(want, 32)})
				return
			}
			if !bytes.Equal(out[n:], bytes.Repeat([]byte{0xDD}, 16)) {
				fault("C12:raw:output-overrun", nil)
				return
			}
		}
	}
	for i := range g.pre {
		if g.pre[i] != 0x77 || g.post[i] != 0x88 {
			fault("C12:raw:canary", nil)
			return
		}
	}
	if sample {
		r.Sample(map[string]any{"kind": "raw", "key_len": len(key), "trace": trace})
	}
}
