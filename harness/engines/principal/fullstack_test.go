package principal

// Full stack (real time, loopback UDP, files in a scratch directory): the
// principal is the real hopclient.HopClient - its approval wrapper, its client
// configuration loaded from a file, the real transport handshake with the
// target through the unreliable proxy tube (the approval callback of the first
// request runs inside that handshake), the login and the authgrant tube; the
// target is the real hopserver.HopServer. The harness plays the delegate and
// the delegate's server, which only relays bytes. Same oracle as the in-memory
// family: one answer per request, a confirmation only for an intent the
// callback accepted and the target stored, nothing stored that was not
// accepted.

import (
	"fmt"
	"net"
	"os"
	"path/filepath"
	"strings"
	"sync"
	"testing/fstest"
	"time"

	"github.com/AstromechZA/etcpwdparse"
	"github.com/sirupsen/logrus"

	"hop.computer/hop/authgrants"
	"hop.computer/hop/authkeys"
	"hop.computer/hop/certs"
	"hop.computer/hop/codex"
	"hop.computer/hop/common"
	"hop.computer/hop/config"
	"hop.computer/hop/hopclient"
	"hop.computer/hop/hopserver"
	"hop.computer/hop/keys"
	"hop.computer/hop/pkg/thunks"
	"hop.computer/hop/proxy"
	"hop.computer/hop/transport"
	"hop.computer/hop/tubes"

	"verif/harness/vh"
)

var (
	fsOnce sync.Once
	fsDir  string
)

func fullStackSetup() string {
	fsOnce.Do(func() {
		d, err := os.MkdirTemp("", "vc06")
		if err != nil {
			panic(err)
		}
		fsDir = d
		thunks.UserHomeDir = func() (string, error) { return fsDir, nil }
		thunks.LookupUser = func(username string) (*etcpwdparse.EtcPasswdEntry, error) {
			ent, err := etcpwdparse.ParsePasswdLine(fmt.Sprintf("%s:x:1000:1000:V:/home/%s:/bin/sh", username, username))
			return &ent, err
		}
	})
	return fsDir
}

func udpPair() (*net.UDPConn, *net.UDPConn, error) {
	a, err := net.ListenUDP("udp", &net.UDPAddr{IP: net.IPv4(127, 0, 0, 1)})
	if err != nil {
		return nil, nil, err
	}
	b, err := net.ListenUDP("udp", &net.UDPAddr{IP: net.IPv4(127, 0, 0, 1)})
	if err != nil {
		a.Close()
		return nil, nil, err
	}
	aAddr, bAddr := a.LocalAddr().(*net.UDPAddr), b.LocalAddr().(*net.UDPAddr)
	a.Close()
	b.Close()
	if a, err = net.DialUDP("udp", aAddr, bAddr); err != nil {
		return nil, nil, err
	}
	if b, err = net.DialUDP("udp", bAddr, aAddr); err != nil {
		a.Close()
		return nil, nil, err
	}
	return a, b, nil
}

type fsReq struct {
	Cmd     string `json:"cmd"`
	Approve bool   `json:"approve"`
	Expired bool   `json:"expired_at_target"` // the target's own policy refuses it
}

func genC06FullStack(r *vh.Runner) {
	n := r.Pick(16, 400)
	for i := 0; i < n; i++ {
		r.Case(fmt.Sprintf("full-stack/%d", i), map[string]any{"i": i}, func(c *vh.Case) { fullStack(r, c, i) })
	}
}

func fullStack(r *vh.Runner, c *vh.Case, i int) {
	rng := vh.NewRand(r.Seed, "c06-fullstack", i)
	base := fullStackSetup()
	const user = "puser"
	withExecTube := rng.Chance(0.5)
	skipVerify := rng.Chance(0.3)
	var reqs []fsReq
	for k := 1 + rng.Intn(4); k > 0; k-- {
		reqs = append(reqs, fsReq{Cmd: fmt.Sprintf("cmd-%d-%d-%x", i, len(reqs), rng.Bytes(3)), Approve: rng.Chance(0.55), Expired: rng.Chance(0.15)})
	}
	desc := map[string]any{"requests": reqs, "principal_has_exec_tube": withExecTube, "insecure_skip_verify": skipVerify}
	fail := func(what string) { c.Inconclusive("full-stack set-up: " + what) }

	// ---- the target
	tudp, err := net.ListenUDP("udp", &net.UDPAddr{IP: net.IPv4(127, 0, 0, 1)})
	if err != nil {
		fail(err.Error())
		return
	}
	leafKP, interKP, rootKP := keys.GenerateNewX25519KeyPair(), keys.GenerateNewSigningKeyPair(), keys.GenerateNewSigningKeyPair()
	root, err := certs.SelfSignRoot(certs.SigningIdentity(rootKP), rootKP)
	if err != nil {
		fail(err.Error())
		return
	}
	root.ProvideKey((*[32]byte)(&rootKP.Private))
	inter, err := certs.IssueIntermediate(root, certs.SigningIdentity(interKP))
	if err != nil {
		fail(err.Error())
		return
	}
	inter.ProvideKey((*[32]byte)(&interKP.Private))
	leaf, err := certs.IssueLeaf(inter, certs.LeafIdentity(leafKP, certs.DNSName("example.local")))
	if err != nil {
		fail(err.Error())
		return
	}
	ts, err := transport.NewServer(tudp, transport.ServerConfig{Certificate: leaf, Intermediate: inter, KeyPair: leafKP, HandshakeTimeout: 5 * time.Second})
	if err != nil {
		fail(err.Error())
		return
	}
	sock := fmt.Sprintf("@verif-c06-%d-%d-%d", os.Getpid(), i, time.Now().UnixNano()%100000)
	hs, err := hopserver.NewHopServerExt(ts, &config.ServerConfig{EnableAuthgrants: true, DataTimeout: 10 * time.Second, AgProxyListenSocket: &sock}, authkeys.NewSyncAuthKeySet())
	if err != nil {
		fail(err.Error())
		return
	}
	principalKP := keys.GenerateNewX25519KeyPair()
	hs.SetFSystem(fstest.MapFS{"home/" + user + "/.hop/authorized_keys": &fstest.MapFile{Data: []byte(principalKP.Public.String() + "\n"), Mode: 0600}})
	go hs.Serve()
	defer func() { go hs.Close() }()

	// ---- the principal's files
	dir := filepath.Join(base, fmt.Sprintf("case%d", i))
	os.MkdirAll(dir, 0o700)
	defer os.RemoveAll(dir)
	write := func(file string, data []byte) string {
		p := filepath.Join(dir, file)
		os.WriteFile(p, data, 0o600)
		return p
	}
	keyPath := write("id_hop.pem", []byte(principalKP.Private.String()+"\n"))
	rootPEM, _ := certs.EncodeCertificateToPEM(root)
	interPEM, _ := certs.EncodeCertificateToPEM(inter)
	serverName, extra := "example.local", ""
	if skipVerify {
		serverName, extra = "another-name.example", "InsecureSkipVerify = true"
	}
	cfgPath := write("config.toml", []byte(fmt.Sprintf("[Global]\nDisableAgent = true\nAutoSelfSign = true\nIsPrincipal = true\nKey = %q\nCAFiles = [%q, %q]\nServerName = %q\nDataTimeout = \"10s\"\nHandshakeTimeout = \"5s\"\n%s\n",
		keyPath, write("root.cert", rootPEM), write("intermediate.cert", interPEM), serverName, extra)))

	// ---- the principal client
	pc, err := hopclient.NewHopClient(&config.HostConfig{IsPrincipal: true, Hostname: "delegate-server", User: user, DataTimeout: 10 * time.Second})
	if err != nil {
		fail(err.Error())
		return
	}
	pc.RawConfigFilePath = cfgPath
	var mu sync.Mutex
	asked := map[string][]bool{}
	decision := map[string]bool{}
	for _, q := range reqs {
		decision[q.Cmd] = q.Approve
	}
	if err := pc.SetCheckIntentCallback(func(in authgrants.Intent, _ *certs.Certificate) error {
		cmd := in.AssociatedData.CommandGrantData.Cmd
		mu.Lock()
		defer mu.Unlock()
		asked[cmd] = append(asked[cmd], decision[cmd])
		if !decision[cmd] {
			return fmt.Errorf("the principal's user says no")
		}
		return nil
	}); err != nil {
		fail(err.Error())
		return
	}
	if withExecTube {
		pc.ExecTube = codex.VerifIdleExecTube()
	}

	// ---- the session between the principal and the delegate's server
	pu, su, err := udpPair()
	if err != nil {
		fail(err.Error())
		return
	}
	lg := logrus.WithField("muxer", "harness")
	pm := tubes.Client(transport.NewUDPMsgConn(pu), &tubes.Config{Timeout: 90 * time.Second, Log: lg})
	sm := tubes.Server(transport.NewUDPMsgConn(su), &tubes.Config{Timeout: 90 * time.Second, Log: lg})
	defer func() { go pm.Stop(); go sm.Stop() }()
	agTube, err := sm.CreateReliableTube(common.AuthGrantTube)
	if err != nil {
		fail(err.Error())
		return
	}
	proxyTube, err := sm.CreateUnreliableTube(common.PrincipalProxyTube)
	if err != nil {
		fail(err.Error())
		return
	}
	toTarget, err := net.DialUDP("udp", nil, tudp.LocalAddr().(*net.UDPAddr))
	if err != nil {
		fail(err.Error())
		return
	}
	defer toTarget.Close()
	if err := authgrants.WriteUnreliableProxyID(agTube, proxyTube.GetID()); err != nil {
		fail(err.Error())
		return
	}
	proxy.UnreliableProxy(proxyTube, toTarget)
	var delTube *tubes.Reliable
	var prx *tubes.Unreliable
	got := make(chan struct{})
	go func() {
		defer close(got)
		for delTube == nil || prx == nil {
			tb, err := pm.Accept()
			if err != nil {
				return
			}
			if rt, ok := tb.(*tubes.Reliable); ok && rt.Type() == common.AuthGrantTube {
				delTube = rt
			} else if u, ok := tb.(*tubes.Unreliable); ok && u.Type() == common.PrincipalProxyTube {
				prx = u
			}
		}
	}()
	select {
	case <-got:
	case <-time.After(10 * time.Second):
	}
	if delTube == nil || prx == nil {
		fail("the principal did not get both tubes")
		return
	}
	done := make(chan struct{})
	go func() { pc.VerifRunPrincipal(delTube, prx); close(done) }()

	// ---- the delegate
	delegateKP := keys.GenerateNewX25519KeyPair()
	delegateLeaf, err := certs.SelfSignLeaf(&certs.Identity{PublicKey: delegateKP.Public, Names: []certs.Name{certs.RawStringName(user)}})
	if err != nil {
		fail(err.Error())
		return
	}
	port := tudp.LocalAddr().(*net.UDPAddr).Port
	answers := make([][]string, len(reqs))
	for k, q := range reqs {
		in := authgrants.Intent{GrantType: authgrants.Command, TargetPort: uint16(port), StartTime: time.Now().Add(-time.Second), ExpTime: time.Now().Add(time.Hour),
			TargetSNI: certs.Name{Type: certs.TypeDNSName, Label: []byte("127.0.0.1")}, TargetUsername: user, DelegateCert: *delegateLeaf}
		if q.Expired {
			in.ExpTime = time.Now().Add(-time.Hour)
		}
		in.AssociatedData.CommandGrantData.Cmd = q.Cmd
		if err := authgrants.WriteIntentRequest(agTube, in); err != nil {
			break
		}
		for {
			wait := 45 * time.Second
			if len(answers[k]) > 0 {
				wait = 150 * time.Millisecond // anything more is an extra answer
			}
			agTube.SetReadDeadline(time.Now().Add(wait))
			m, err := authgrants.ReadConfOrDenial(agTube)
			if err != nil {
				break
			}
			if m.MsgType == authgrants.IntentConfirmation {
				answers[k] = append(answers[k], "confirmed")
			} else {
				answers[k] = append(answers[k], "denied: "+m.Data.Denial)
			}
			if len(answers[k]) > 3 {
				break
			}
		}
		r.Count("evaluations", 1)
		r.Count("full_stack_requests", 1)
	}
	agTube.Close()
	select {
	case <-done:
	case <-time.After(15 * time.Second):
	}
	stored := map[string]bool{}
	ags, _ := hs.AuthorizeKeyAuthGrant(user, delegateKP.Public)
	for _, ag := range ags {
		stored[ag.AssociatedData.CommandGrantData.Cmd] = true
	}
	mu.Lock()
	defer mu.Unlock()
	desc["answers"], desc["asked"], desc["stored_on_target"] = answers, asked, stored
	r.Nontrivial(fmt.Sprintf("full-stack|%d", i))
	for k, q := range reqs {
		pos := "first-request"
		if k > 0 {
			pos = "later-request"
		}
		mode := "headless"
		if withExecTube {
			mode = "exec-tube-open"
		}
		if skipVerify {
			mode += "+skip-verify"
		}
		accepted := false
		for _, d := range asked[q.Cmd] {
			accepted = accepted || d
		}
		if len(answers[k]) != 1 {
			if len(answers[k]) == 0 && k > 0 && len(answers[k-1]) == 0 {
				continue // the connection was gone already
			}
			c.Violate(fmt.Sprintf("C06:full-stack:answers-per-request:%d:%s:%s", len(answers[k]), pos, mode), desc)
			return
		}
		confirmed := answers[k][0] == "confirmed"
		switch {
		case confirmed && !accepted:
			c.Violate("C06:full-stack:confirmation-for-an-intent-the-callback-did-not-accept:"+pos+":"+mode, desc)
			return
		case stored[q.Cmd] && !accepted:
			c.Violate("C06:full-stack:grant-stored-for-an-intent-the-callback-did-not-accept:"+pos+":"+mode, desc)
			return
		case confirmed && !stored[q.Cmd]:
			c.Violate("C06:full-stack:confirmation-without-a-stored-grant:"+pos+":"+mode, desc)
			return
		case confirmed:
			r.Count("full_stack_confirmed", 1)
		default:
			r.Count("full_stack_denied", 1)
			if strings.Contains(answers[k][0], "says no") {
				r.Count("full_stack_denied_by_the_callback", 1)
			}
		}
	}
	if i == 0 {
		r.Sample(map[string]any{"kind": "full-stack", "detail": desc})
	}
}
