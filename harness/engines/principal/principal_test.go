// Engine principal: C06 — nothing is delegated without the principal
// approving that exact intent. The real authgrants.StartPrincipalInstance runs
// between a harness delegate (one end of a net.Pipe) and targets that are
// either the real authgrants.StartTargetInstance with scripted callbacks or a
// scripted raw peer; every observable event is logged with a global sequence
// number and the trace predicate of DESIGN appendix B6 is evaluated offline.
package principal

import (
	"bytes"
	"errors"
	"fmt"
	"net"
	"sync"
	"testing"
	"time"

	"hop.computer/hop/authgrants"
	"hop.computer/hop/certs"
	"hop.computer/hop/core"
	"hop.computer/hop/keys"

	"verif/harness/bub"
	"verif/harness/vh"
)

func TestEngine(t *testing.T) {
	vh.Main(t, map[string]func(*vh.Runner){"C06": genC06})
}

type step struct {
	Approve   bool   `json:"approve"`
	Target    string `json:"target"`     // confirm | deny | addgrant-fails | setup-fails | raw-confirm | raw-deny | raw-close | raw-garbage
	OtherHost bool   `json:"other_host"` // request names another target than the connected one
}

type event struct {
	Seq  int
	Kind string // req approve.call approve.ret setup.call setup.ret target.rx target.decision answer
	Req  int    // request index (-1 unknown)
	Info string
	Int  *authgrants.Intent
	OK   bool
}

type elog struct {
	mu  sync.Mutex
	evs []event
}

func (l *elog) add(e event) {
	l.mu.Lock()
	e.Seq = len(l.evs)
	l.evs = append(l.evs, e)
	l.mu.Unlock()
}

var targetBehaviours = []string{"confirm", "deny", "addgrant-fails", "setup-fails", "raw-confirm", "raw-deny", "raw-close", "raw-garbage",
	"deny-empty-reason", "raw-deny-empty-reason", "setup-fails-once"}

func genC06(r *vh.Runner) {
	genC06FullStack(r)
	// exhaustive short decision sequences over {approve, deny} x 4 real-target behaviours x {same, other host}
	base := []string{"confirm", "deny", "addgrant-fails", "setup-fails"}
	var alpha []step
	for _, ap := range []bool{true, false} {
		for _, tb := range base {
			for _, oh := range []bool{false, true} {
				alpha = append(alpha, step{ap, tb, oh})
			}
		}
	}
	maxLen := r.Pick(2, 4)
	var seqs [][]step
	var rec func(cur []step)
	rec = func(cur []step) {
		if len(cur) > 0 {
			seqs = append(seqs, append([]step(nil), cur...))
		}
		if len(cur) == maxLen {
			return
		}
		for _, a := range alpha {
			rec(append(cur, a))
		}
	}
	rec(nil)
	const chunk = 16
	for lo := 0; lo < len(seqs); lo += chunk {
		hi := min(lo+chunk, len(seqs))
		r.Case(fmt.Sprintf("exhaustive/%d-%d", lo, hi), map[string]any{"first": seqs[lo], "n": hi - lo}, func(c *vh.Case) {
			for k := lo; k < hi && !c.Violated(); k++ {
				seq := seqs[k]
				c.Bubble(func() { runSequence(r, c, seq, vh.NewRand(r.Seed, "c06-exh", k), k == 0) })
			}
			r.NontrivialN(int64(hi - lo))
		})
	}
	// directed histories: a foreign target asked for again after it was
	// refused, targets that deny without giving a reason, a connection attempt
	// that fails once
	var directed [][]step
	for _, t1 := range base {
		for _, ap := range []bool{true, false} {
			directed = append(directed,
				[]step{{true, "confirm", false}, {ap, t1, true}, {true, "confirm", true}},
				[]step{{true, "raw-confirm", false}, {ap, t1, true}, {true, "raw-confirm", true}, {true, "confirm", false}},
				[]step{{true, "confirm", false}, {ap, t1, true}, {ap, t1, true}, {true, "confirm", true}, {true, "confirm", true}})
		}
	}
	for _, ap := range []bool{true, false} {
		for _, tb := range []string{"deny-empty-reason", "raw-deny-empty-reason", "setup-fails-once"} {
			directed = append(directed,
				[]step{{ap, tb, false}},
				[]step{{ap, tb, false}, {true, "confirm", false}},
				[]step{{true, "confirm", false}, {ap, tb, false}, {true, "confirm", false}})
		}
	}
	for k, seq := range directed {
		r.Case(fmt.Sprintf("directed/%d", k), map[string]any{"sequence": seq}, func(c *vh.Case) {
			for rep := 0; rep < 4 && !c.Violated(); rep++ {
				c.Bubble(func() { runSequence(r, c, seq, vh.NewRand(r.Seed, "c06-dir", k, rep), false) })
			}
			r.Nontrivial(fmt.Sprintf("dir|%d", k))
		})
	}
	r.Case("exhaustive/complete", map[string]any{"sequences": len(seqs), "max_len": maxLen}, func(c *vh.Case) { r.Count("exhaustive_spaces_completed", 1) })
	nr := r.Pick(300, 1500000)
	for i := 0; i < nr; i++ {
		r.Case(fmt.Sprintf("random/%d", i), map[string]any{"i": i}, func(c *vh.Case) {
			rng := vh.NewRand(r.Seed, "c06-rand", i)
			n := 1 + rng.Intn(8)
			var seq []step
			for k := 0; k < n; k++ {
				seq = append(seq, step{rng.Chance(0.6), targetBehaviours[rng.Intn(len(targetBehaviours))], rng.Chance(0.25)})
			}
			c.Bubble(func() { runSequence(r, c, seq, rng, i == 0) })
			r.Nontrivial(fmt.Sprintf("rand|%d|%v", i, seq))
		})
	}
}

func randIntent(rng *vh.Rand, reqNo int, host, user string, cert certs.Certificate) authgrants.Intent {
	gt := authgrants.GrantType(rng.Pick(1, 2, 2, 2, 3, 4, 5, 9))
	i := authgrants.Intent{
		GrantType:      gt,
		Reserved:       byte(rng.Pick(0, 0, 7)),
		TargetPort:     7777, // user, host and port identify "the connected target" for the principal
		StartTime:      time.Unix(1_700_000_000+int64(rng.Intn(1000)), 0),
		ExpTime:        time.Unix(1_800_000_000+int64(rng.Intn(1000)), 0),
		TargetSNI:      certs.Name{Type: certs.IDType(rng.Pick(0, 1, 1)), Label: []byte(host)},
		TargetUsername: user,
		DelegateCert:   cert,
	}
	i.AssociatedData.CommandGrantData.Cmd = fmt.Sprintf("cmd-%d-%x", reqNo, rng.Bytes(rng.Pick(0, 4, 100)))
	return i
}

func sameIntent(a, b authgrants.Intent) string {
	switch {
	case a.GrantType != b.GrantType:
		return "GrantType"
	case a.Reserved != b.Reserved:
		return "Reserved"
	case a.TargetPort != b.TargetPort:
		return "TargetPort"
	case a.StartTime.Unix() != b.StartTime.Unix():
		return "StartTime"
	case a.ExpTime.Unix() != b.ExpTime.Unix():
		return "ExpTime"
	case a.TargetSNI.Type != b.TargetSNI.Type || !bytes.Equal(a.TargetSNI.Label, b.TargetSNI.Label):
		return "TargetSNI"
	case a.TargetUsername != b.TargetUsername:
		return "TargetUsername"
	case a.DelegateCert.PublicKey != b.DelegateCert.PublicKey || a.DelegateCert.Signature != b.DelegateCert.Signature:
		return "DelegateCert"
	case a.GrantType == authgrants.Command && a.AssociatedData.CommandGrantData.Cmd != b.AssociatedData.CommandGrantData.Cmd:
		return "Cmd"
	}
	return ""
}

func runSequence(r *vh.Runner, c *vh.Case, seq []step, rng *vh.Rand, sample bool) {
	lg := &elog{}
	k := keys.GenerateNewX25519KeyPair()
	dcert, err := certs.SelfSignLeaf(&certs.Identity{PublicKey: k.Public})
	if err != nil {
		c.Inconclusive("cert: " + err.Error())
		return
	}
	// round-trip so that the certificate is what a peer would parse
	raw, _ := dcert.Marshal()
	var delegateCert certs.Certificate
	delegateCert.ReadFrom(bytes.NewReader(raw))
	tcert, _ := certs.SelfSignLeaf(&certs.Identity{PublicKey: keys.GenerateNewX25519KeyPair().Public})

	dA, dB := net.Pipe() // dA: harness delegate, dB: principal's delegate connection
	cur := -1            // request currently being processed (sequential protocol)
	var curMu sync.Mutex
	getCur := func() int { curMu.Lock(); defer curMu.Unlock(); return cur }
	var intents []authgrants.Intent
	var targetConns []net.Conn
	failedOnce := map[int]bool{}
	connectedTo := "" // what the successful set-up was asked to connect to
	approve := func(i authgrants.Intent, cert *certs.Certificate) error {
		q := getCur()
		ic := i
		lg.add(event{Kind: "approve.call", Req: q, Int: &ic})
		dec := q >= 0 && q < len(seq) && seq[q].Approve
		lg.add(event{Kind: "approve.ret", Req: q, Int: &ic, OK: dec})
		if !dec {
			return fmt.Errorf("principal user denied request %d", q)
		}
		return nil
	}
	setup := func(u core.URL, verify authgrants.AdditionalVerifyCallback) (net.Conn, error) {
		q := getCur()
		lg.add(event{Kind: "setup.call", Req: q, Info: u.String()})
		behaviour := seq[q].Target
		if behaviour == "setup-fails" {
			lg.add(event{Kind: "setup.ret", Req: q, Info: "dial failed"})
			return nil, errors.New("dial failed")
		}
		if behaviour == "setup-fails-once" && !failedOnce[q] {
			// the first attempt for this request fails before the handshake
			// reaches the certificate; any further attempt would get through
			failedOnce[q] = true
			lg.add(event{Kind: "setup.ret", Req: q, Info: "dial failed (first attempt)"})
			return nil, errors.New("dial failed")
		}
		// as the real setupTargetClient: the verify callback runs inside the handshake
		if err := verify(tcert); err != nil {
			lg.add(event{Kind: "setup.ret", Req: q, Info: "handshake aborted by verify callback"})
			return nil, fmt.Errorf("handshake failed: %w", err)
		}
		pEnd, tEnd := net.Pipe()
		targetConns = append(targetConns, pEnd, tEnd)
		go runTarget(lg, noZeroWrites{tEnd}, seq, getCur)
		connectedTo = u.String()
		lg.add(event{Kind: "setup.ret", Req: q, Info: "connected", OK: true})
		return &tapConn{Conn: pEnd, lg: lg, cur: getCur}, nil
	}
	done := bub.Go(func() { authgrants.StartPrincipalInstance(noZeroWrites{dB}, approve, setup) })
	host := "target.example"
	user := "user-" + string(rng.Bytes(rng.Pick(0, 3, 30, 200)))
	type answer struct {
		kind   string
		reason string
	}
	answers := make([][]answer, len(seq))
	sameOther := rng.Bool()
	for q, st := range seq {
		h := host
		if st.OtherHost {
			h = fmt.Sprintf("other%d.example", q)
			if sameOther {
				h = "other.example" // the same foreign target, asked for again and again
			}
		}
		u := user
		if rng.Chance(0.1) {
			u = fmt.Sprintf("other-user-%d", q) // another account on the same host is another target too
			if sameOther {
				u = "other-user"
			}
		}
		in := randIntent(rng, q, h, u, delegateCert)
		intents = append(intents, in)
		curMu.Lock()
		cur = q
		curMu.Unlock()
		ic := in
		lg.add(event{Kind: "req", Req: q, Int: &ic})
		werr := make(chan error, 1)
		go func() { werr <- authgrants.WriteIntentRequest(dA, in) }()
		select {
		case err := <-werr:
			if err != nil {
				break
			}
		case <-time.After(5 * time.Second):
		}
		// read every answer that arrives for this request
		for {
			dA.SetReadDeadline(time.Now().Add(2 * time.Second))
			m, err := authgrants.ReadConfOrDenial(dA)
			if err != nil {
				break
			}
			a := answer{kind: "denied", reason: m.Data.Denial}
			if m.MsgType == authgrants.IntentConfirmation {
				a.kind = "confirmed"
			}
			answers[q] = append(answers[q], a)
			lg.add(event{Kind: "answer", Req: q, Info: a.kind + ": " + a.reason})
			// anything further within a short time is an extra answer to the same request
			dA.SetReadDeadline(time.Now().Add(50 * time.Millisecond))
			if len(answers[q]) > 3 {
				break
			}
		}
		dA.SetReadDeadline(time.Time{})
		r.Count("evaluations", 1)
		r.Count("requests", 1)
	}
	dA.Close()
	bub.Within(done, 10*time.Second)
	for _, tc := range targetConns {
		tc.Close()
	}
	bub.Settle(100 * time.Millisecond)

	// ---- offline trace predicate
	lg.mu.Lock()
	evs := append([]event(nil), lg.evs...)
	lg.mu.Unlock()
	trace := func() []string {
		var out []string
		for _, e := range evs {
			s := fmt.Sprintf("#%d %s req=%d ok=%v %s", e.Seq, e.Kind, e.Req, e.OK, e.Info)
			if e.Int != nil {
				s += fmt.Sprintf(" intent{type=%d user=%q cmd=%q host=%q}", e.Int.GrantType, trunc(e.Int.TargetUsername), trunc(e.Int.AssociatedData.CommandGrantData.Cmd), e.Int.TargetSNI.Label)
			}
			out = append(out, s)
		}
		return out
	}
	detail := func(extra map[string]any) map[string]any {
		extra["sequence"] = seq
		extra["trace"] = trace()
		return extra
	}
	for q := range seq {
		// exactly one answer
		if n := len(answers[q]); n != 1 {
			cls := "none"
			if n > 1 {
				cls = "more-than-one"
			}
			pos := "first-request"
			if q > 0 {
				pos = "later-request"
			}
			c.Violate(fmt.Sprintf("C06:answers-per-request:%s:%s:approve=%v:%s", cls, pos, seq[q].Approve, seq[q].Target), detail(map[string]any{"request": q, "answers": fmt.Sprint(answers[q])}))
			return
		}
		// forwarded intents for q
		var approved *event
		for i := range evs {
			e := &evs[i]
			if e.Kind == "approve.ret" && e.Req == q && e.OK && approved == nil {
				approved = e
			}
			if e.Kind == "target.tx" && e.Req == q {
				r.Count("intent_communications_forwarded", 1)
				if approved == nil || approved.Seq > e.Seq {
					pos := "first-request"
					if q > 0 {
						pos = "later-request"
					}
					c.Violate("C06:intent-forwarded-without-approval:"+pos, detail(map[string]any{"request": q}))
					return
				}
				if d := sameIntent(*e.Int, intents[q]); d != "" {
					c.Violate("C06:forwarded-intent-differs-from-requested:"+d, detail(map[string]any{"request": q}))
					return
				}
				if want := intents[q].TargetURL().String(); connectedTo != "" && want != connectedTo {
					c.Violate("C06:intent-forwarded-to-a-target-it-does-not-name", detail(map[string]any{"request": q, "connected_to": connectedTo, "intent_names": want}))
					return
				}
				if d := sameIntent(*approved.Int, intents[q]); d != "" {
					c.Violate("C06:approved-intent-differs-from-requested:"+d, detail(map[string]any{"request": q}))
					return
				}
			}
		}
		if answers[q][0].kind == "confirmed" {
			r.Count("requests_confirmed", 1)
			okTarget := false
			for _, e := range evs {
				if e.Kind == "target.decision" && e.Req == q && e.OK {
					okTarget = true
				}
			}
			if !okTarget {
				c.Violate("C06:confirmation-without-target-confirmation:"+seq[q].Target, detail(map[string]any{"request": q}))
				return
			}
			if approved == nil {
				c.Violate("C06:confirmation-without-approval", detail(map[string]any{"request": q}))
				return
			}
		} else {
			r.Count("requests_denied", 1)
		}
	}
	if sample {
		r.Sample(map[string]any{"kind": "sequence", "sequence": seq, "trace": trace()})
	}
}

func trunc(s string) string {
	if len(s) > 24 {
		return s[:24] + "…"
	}
	return s
}

// tapConn records every IntentCommunication the principal writes to a target.
type tapConn struct {
	net.Conn
	lg  *elog
	cur func() int
	buf bytes.Buffer
}

func (t *tapConn) Write(b []byte) (int, error) {
	t.buf.Write(b)
	// try to decode complete messages from what has been written so far
	for t.buf.Len() > 0 {
		rd := bytes.NewReader(t.buf.Bytes())
		var m authgrants.AgMessage
		n, err := m.ReadFrom(rd)
		if err != nil {
			break // incomplete
		}
		t.buf.Next(int(n))
		if m.MsgType == authgrants.IntentCommunication {
			ic := m.Data.Intent
			t.lg.add(event{Kind: "target.tx", Req: t.cur(), Int: &ic})
		}
	}
	return t.Conn.Write(b)
}

// runTarget serves one target connection: the real StartTargetInstance or a raw scripted peer.
// noZeroWrites: a zero-length write on a net.Pipe blocks until the other end
// reads, which a reader that has just been told "length 0" never does; a real
// tube accepts it at once.
type noZeroWrites struct{ net.Conn }

func (n noZeroWrites) Write(b []byte) (int, error) {
	if len(b) == 0 {
		return 0, nil
	}
	return n.Conn.Write(b)
}

func runTarget(lg *elog, conn net.Conn, seq []step, cur func() int) {
	q0 := cur()
	behaviourOf := func() string {
		q := cur()
		if q >= 0 && q < len(seq) {
			return seq[q].Target
		}
		return "confirm"
	}
	if b := seq[q0].Target; len(b) < 4 || b[:4] != "raw-" {
		// the real target instance with scripted policy callbacks; behaviour follows the current request
		check := func(i authgrants.Intent, c *certs.Certificate) error {
			ic := i
			lg.add(event{Kind: "target.rx", Req: cur(), Int: &ic})
			if behaviourOf() == "deny" || behaviourOf() == "raw-deny" {
				lg.add(event{Kind: "target.decision", Req: cur(), Info: "denied by target policy"})
				return errors.New("target policy says no")
			}
			if b := behaviourOf(); b == "deny-empty-reason" || b == "raw-deny-empty-reason" {
				lg.add(event{Kind: "target.decision", Req: cur(), Info: "denied by target policy, no reason given"})
				return errors.New("")
			}
			return nil
		}
		add := func(i *authgrants.Intent) error {
			if behaviourOf() == "addgrant-fails" {
				lg.add(event{Kind: "target.decision", Req: cur(), Info: "add grant failed"})
				return errors.New("could not store grant")
			}
			lg.add(event{Kind: "target.decision", Req: cur(), Info: "grant stored", OK: true})
			return nil
		}
		authgrants.StartTargetInstance(conn, nil, check, add)
		return
	}
	defer conn.Close()
	for {
		i, err := authgrants.ReadIntentCommunication(conn)
		if err != nil {
			return
		}
		ic := i
		lg.add(event{Kind: "target.rx", Req: cur(), Int: &ic})
		switch behaviourOf() {
		case "raw-confirm", "confirm":
			lg.add(event{Kind: "target.decision", Req: cur(), Info: "raw confirm", OK: true})
			authgrants.WriteIntentConfirmation(conn)
		case "raw-deny", "deny", "addgrant-fails":
			lg.add(event{Kind: "target.decision", Req: cur(), Info: "raw deny"})
			authgrants.WriteIntentDenied(conn, "raw target denies")
		case "raw-deny-empty-reason", "deny-empty-reason":
			lg.add(event{Kind: "target.decision", Req: cur(), Info: "raw deny, no reason given"})
			authgrants.WriteIntentDenied(conn, "")
		case "raw-close":
			lg.add(event{Kind: "target.decision", Req: cur(), Info: "raw close"})
			return
		default: // raw-garbage
			lg.add(event{Kind: "target.decision", Req: cur(), Info: "raw garbage"})
			// garbage, then the connection fails (a target that stays connected
			// and silent for ever is not a "failure behaviour": the principal
			// would simply still be waiting for it)
			// net.Pipe is unbuffered and the principal stops reading at the
			// first bad byte, so the write must not hold this goroutine: a real
			// tube buffers it and the target goes away.
			go conn.Write([]byte{0x09, 0xff, 0x00, 0x13, 0x37})
			time.Sleep(50 * time.Millisecond)
			return
		}
	}
}
