package hsk

// C01 — a handshake completes only with a peer that proved its certified key.
// Counterparts are the real endpoint code configured inconsistently on
// purpose (a certificate without its key, a certificate the verifier's policy
// must refuse); the ground truth of every cell is known by construction.

import (
	"bytes"
	"crypto/rand"
	"errors"
	"fmt"
	"sync"
	"time"

	"hop.computer/hop/authkeys"
	"hop.computer/hop/certs"
	"hop.computer/hop/keys"
	"hop.computer/hop/transport"

	"verif/harness/bub"
	"verif/harness/fix"
	"verif/harness/perturb"
	"verif/harness/simnet"
	"verif/harness/vh"
)

// presented is what a counterpart shows and holds, with the construction facts
// the reference policy evaluation needs.
type presented struct {
	Class    string
	Leaf     *certs.Certificate
	Int      *certs.Certificate
	RawLeaf  []byte // overrides Leaf when set (garbage)
	Key      *keys.X25519KeyPair
	Exch     keys.Exchangable // overrides Key as the static-key oracle of the peer when set
	Parse    bool
	LeafType bool
	NameOK   bool // carries the expected name
	TimeOK   bool
	ChainOK  bool // links, types and signatures up to the trusted root (verifier stores only the root)
	HoldsKey bool
}

func (p *presented) certKey() keys.DHPublicKey {
	if p.Leaf != nil {
		return p.Leaf.PublicKey
	}
	return keys.DHPublicKey{}
}

// zeroSecret is the static-key oracle of a peer that presents the all-zero
// point: it has no private key; every agreement "yields" 32 zero bytes.
type zeroSecret struct{}

func (zeroSecret) Share() []byte                { return make([]byte, 32) }
func (zeroSecret) Agree([]byte) ([]byte, error) { return make([]byte, 32), nil }

func (p *presented) exchanger() keys.Exchangable {
	if p.Exch != nil {
		return p.Exch
	}
	return p.Key
}

// classes builds every counterpart class for the expected name.
func classes(pki, other *fix.PKI, name certs.Name, rng *vh.Rand) []*presented {
	now := time.Now()
	seed := func(k *keys.SigningKeyPair) *[32]byte { s := [32]byte(k.Private); return &s }
	victimChain := pki.Issue(name)
	victimSelf := fix.SelfSigned(name)
	var out []*presented
	add := func(p *presented) { out = append(out, p) }

	own := pki.Issue(name)
	add(&presented{Class: "honest-chain", Leaf: own.Leaf, Int: pki.Int, Key: own.Key, Parse: true, LeafType: true, NameOK: true, TimeOK: true, ChainOK: true, HoldsKey: true})

	self := fix.SelfSigned(name)
	add(&presented{Class: "honest-selfsigned", Leaf: self.Leaf, Key: self.Key, Parse: true, LeafType: true, NameOK: true, TimeOK: true, ChainOK: false, HoldsKey: true})

	add(&presented{Class: "impostor-with-valid-chain", Leaf: victimChain.Leaf, Int: pki.Int, Key: keys.GenerateNewX25519KeyPair(), Parse: true, LeafType: true, NameOK: true, TimeOK: true, ChainOK: true, HoldsKey: false})
	add(&presented{Class: "impostor-with-authorized-selfsigned", Leaf: victimSelf.Leaf, Key: keys.GenerateNewX25519KeyPair(), Parse: true, LeafType: true, NameOK: true, TimeOK: true, ChainOK: false, HoldsKey: false})

	// another label, and the expected label under another id type
	sameLabelOtherType := certs.RawStringName(string(name.Label))
	if name.Type == certs.TypeRaw {
		sameLabelOtherType = certs.DNSName(string(name.Label))
	}
	on := pki.Issue(certs.DNSName("other.example"), sameLabelOtherType)
	add(&presented{Class: "other-name", Leaf: on.Leaf, Int: pki.Int, Key: on.Key, Parse: true, LeafType: true, NameOK: false, TimeOK: true, ChainOK: true, HoldsKey: true})

	k := keys.GenerateNewX25519KeyPair()
	exp, err := certs.IssueLeafAt(pki.Int, certs.LeafIdentity(k, name), now.Add(-10*24*time.Hour), time.Duration(1+rng.Intn(5*24))*time.Hour)
	if err != nil {
		panic(err)
	}
	add(&presented{Class: "expired", Leaf: exp, Int: pki.Int, Key: k, Parse: true, LeafType: true, NameOK: true, TimeOK: false, ChainOK: true, HoldsKey: true})

	k = keys.GenerateNewX25519KeyPair()
	nyv, err := certs.IssueLeafAt(pki.Int, certs.LeafIdentity(k, name), now.Add(time.Duration(1+rng.Intn(48))*time.Hour), 24*time.Hour)
	if err != nil {
		panic(err)
	}
	add(&presented{Class: "not-yet-valid", Leaf: nyv, Int: pki.Int, Key: k, Parse: true, LeafType: true, NameOK: true, TimeOK: false, ChainOK: true, HoldsKey: true})

	k = keys.GenerateNewX25519KeyPair()
	wt := fix.Forge(fix.CertSpec{Type: certs.Intermediate, Names: []certs.Name{name}, Issued: now.Add(-time.Hour), Expires: now.Add(24 * time.Hour), PublicKey: k.Public, Parent: pki.Int.Fingerprint, SignSeed: seed(pki.IntKey)})
	add(&presented{Class: "wrong-type-in-leaf-slot", Leaf: wt, Int: pki.Int, Key: k, Parse: true, LeafType: false, NameOK: true, TimeOK: true, ChainOK: true, HoldsKey: true})

	k = keys.GenerateNewX25519KeyPair()
	byRoot := fix.Forge(fix.CertSpec{Type: certs.Leaf, Names: []certs.Name{name}, Issued: now.Add(-time.Hour), Expires: now.Add(24 * time.Hour), PublicKey: k.Public, Parent: pki.Root.Fingerprint, SignSeed: seed(pki.RootKey)})
	add(&presented{Class: "leaf-signed-by-root", Leaf: byRoot, Int: pki.Root, Key: k, Parse: true, LeafType: true, NameOK: true, TimeOK: true, ChainOK: false, HoldsKey: true})

	ui := pki.Issue(name)
	add(&presented{Class: "unrelated-intermediate-presented", Leaf: ui.Leaf, Int: other.Int, Key: ui.Key, Parse: true, LeafType: true, NameOK: true, TimeOK: true, ChainOK: false, HoldsKey: true})

	mi := pki.Issue(name)
	add(&presented{Class: "no-intermediate-presented", Leaf: mi.Leaf, Int: nil, Key: mi.Key, Parse: true, LeafType: true, NameOK: true, TimeOK: true, ChainOK: false, HoldsKey: true})

	ur := other.Issue(name)
	add(&presented{Class: "untrusted-root", Leaf: ur.Leaf, Int: other.Int, Key: ur.Key, Parse: true, LeafType: true, NameOK: true, TimeOK: true, ChainOK: false, HoldsKey: true})

	k = keys.GenerateNewX25519KeyPair()
	bs := fix.Forge(fix.CertSpec{Type: certs.Leaf, Names: []certs.Name{name}, Issued: now.Add(-time.Hour), Expires: now.Add(24 * time.Hour), PublicKey: k.Public, Parent: pki.Int.Fingerprint, SignSeed: nil})
	add(&presented{Class: "garbage-signature", Leaf: bs, Int: pki.Int, Key: k, Parse: true, LeafType: true, NameOK: true, TimeOK: true, ChainOK: false, HoldsKey: true})

	// an attacker's own intermediate that merely *names* the trusted root as its
	// parent (signed by the attacker, or carrying a garbage signature), with a
	// leaf correctly issued under it
	for _, variant := range []string{"signed-by-attacker", "garbage-signature"} {
		ak := keys.GenerateNewSigningKeyPair()
		var iseed *[32]byte
		if variant == "signed-by-attacker" {
			iseed = seed(ak)
		}
		fint := fix.Forge(fix.CertSpec{Type: certs.Intermediate, Names: []certs.Name{certs.RawStringName("attacker ca")}, Issued: now.Add(-time.Hour), Expires: now.Add(24 * time.Hour),
			PublicKey: [32]byte(ak.Public), Parent: pki.Root.Fingerprint, SignSeed: iseed})
		k = keys.GenerateNewX25519KeyPair()
		fl := fix.Forge(fix.CertSpec{Type: certs.Leaf, Names: []certs.Name{name}, Issued: now.Add(-time.Hour), Expires: now.Add(24 * time.Hour), PublicKey: k.Public, Parent: fint.Fingerprint, SignSeed: seed(ak)})
		add(&presented{Class: "forged-intermediate-naming-trusted-root:" + variant, Leaf: fl, Int: fint, Key: k, Parse: true, LeafType: true, NameOK: true, TimeOK: true, ChainOK: false, HoldsKey: true})
	}
	// a leaf that names our intermediate but was signed by somebody else's
	k = keys.GenerateNewX25519KeyPair()
	ls := fix.Forge(fix.CertSpec{Type: certs.Leaf, Names: []certs.Name{name}, Issued: now.Add(-time.Hour), Expires: now.Add(24 * time.Hour), PublicKey: k.Public, Parent: pki.Int.Fingerprint, SignSeed: seed(other.IntKey)})
	add(&presented{Class: "leaf-signed-by-another-ca", Leaf: ls, Int: pki.Int, Key: k, Parse: true, LeafType: true, NameOK: true, TimeOK: true, ChainOK: false, HoldsKey: true})

	// a certificate for the all-zero point (a low-order point: every Diffie-Hellman
	// with it gives zeros): nobody holds a private key for it
	var zero keys.DHPublicKey
	if zl, err := certs.SelfSignLeaf(&certs.Identity{PublicKey: zero, Names: []certs.Name{name}}); err == nil {
		add(&presented{Class: "low-order-public-key", Leaf: zl, Key: keys.GenerateNewX25519KeyPair(), Parse: true, LeafType: true, NameOK: true, TimeOK: true, ChainOK: false, HoldsKey: false})
		// the same certificate presented by a peer that knows what a Diffie-Hellman
		// with that point yields (zeros) and plays along accordingly
		add(&presented{Class: "low-order-public-key:peer-uses-the-zero-secret", Leaf: zl, Key: keys.GenerateNewX25519KeyPair(), Exch: zeroSecret{}, Parse: true, LeafType: true, NameOK: true, TimeOK: true, ChainOK: false, HoldsKey: false})
	}

	add(&presented{Class: "garbage-bytes", RawLeaf: rng.Bytes(150 + rng.Intn(100)), Key: keys.GenerateNewX25519KeyPair(), HoldsKey: true})

	// keys the verifier may have been told to trust (authorized keys):
	// the honest self-signed key, the victim's keys and every class's own key
	_ = victimSelf
	return out
}

type policy struct {
	Name     string
	Store    bool
	AuthKeys bool
	Skip     bool
	Nil      bool // server side only: no ClientVerify at all
	Veto     bool
	WantName bool
}

var clientPolicies = []policy{
	{Name: "store+name", Store: true, WantName: true},
	{Name: "store", Store: true},
	{Name: "authkeys", AuthKeys: true, WantName: true},
	{Name: "authkeys+store", AuthKeys: true, Store: true, WantName: true},
	{Name: "skip", Skip: true, WantName: true},
	{Name: "store+veto-callback", Store: true, Veto: true, WantName: true},
	{Name: "skip+veto-callback", Skip: true, Veto: true, WantName: true},
	{Name: "authkeys+veto-callback", AuthKeys: true, Veto: true, WantName: true},
}

var serverPolicies = []policy{
	{Name: "store", Store: true},
	{Name: "store+name", Store: true, WantName: true},
	{Name: "authkeys", AuthKeys: true},
	{Name: "authkeys+store", AuthKeys: true, Store: true},
	{Name: "skip", Skip: true},
	{Name: "nil-config", Nil: true},
	{Name: "store+veto-callback", Store: true, Veto: true},
	{Name: "skip+veto-callback", Skip: true, Veto: true},
	{Name: "authkeys+veto-callback", AuthKeys: true, Veto: true},
}

var errVeto = errors.New("vetoed by callback")

func (pol policy) config(pki *fix.PKI, name certs.Name, authorized []keys.DHPublicKey) *transport.VerifyConfig {
	if pol.Nil {
		return nil
	}
	vc := &transport.VerifyConfig{InsecureSkipVerify: pol.Skip}
	if pol.Store {
		vc.Store = pki.Store()
	}
	if pol.AuthKeys {
		vc.AuthKeysAllowed = true
		vc.AuthKeys = authkeys.NewSyncAuthKeySet()
		for _, k := range authorized {
			vc.AuthKeys.AddKey(k)
		}
	}
	if pol.WantName {
		vc.Name = name
	}
	if pol.Veto {
		vc.AddVerifyCallback = func(*certs.Certificate) error { return errVeto }
	}
	return vc
}

// legitimate is the reference (DESIGN appendix B3 + policy order).
func legitimate(pol policy, p *presented, authorized map[keys.DHPublicKey]bool) (policyOK, legit bool) {
	if !p.Parse {
		return false, false
	}
	nameOK := !pol.WantName || p.NameOK
	switch {
	case pol.Skip || pol.Nil:
		policyOK = true
	case pol.AuthKeys && p.LeafType && nameOK && authorized[p.certKey()]:
		policyOK = true
	default:
		policyOK = pol.Store && p.LeafType && nameOK && p.TimeOK && p.ChainOK
	}
	if pol.Veto {
		policyOK = false
	}
	return policyOK, policyOK && p.HoldsKey
}

func rawOf(p *presented) (leaf, inter []byte) {
	if p.RawLeaf != nil {
		return p.RawLeaf, nil
	}
	return fix.Raw(p.Leaf), fix.Raw(p.Int)
}

// clientVerifiesServer: the counterpart is a server presenting p.
func clientVerifiesServer(r *vh.Runner, c *vh.Case, pki *fix.PKI, hidden bool, pol policy, p *presented, name certs.Name, authorized []keys.DHPublicKey, authSet map[keys.DHPublicKey]bool) {
	nw := simnet.New(false)
	saddr := simnet.Addr(1, 7777)
	sep := nw.Listen(saddr)
	kem, err := keys.GenerateKEMKeyPair(rand.Reader)
	if err != nil {
		panic(err)
	}
	leaf, inter := rawOf(p)
	tc := &transport.Certificate{RawLeaf: leaf, RawIntermediate: inter, Exchanger: p.exchanger(), KEMKeyPair: kem, HostNames: []string{string(name.Label)}}
	srv, err := transport.NewServer(sep, transport.ServerConfig{
		HandshakeTimeout: 5 * time.Second,
		GetCertificate:   func(transport.ClientHandshakeInfo) (*transport.Certificate, error) { return tc, nil },
		GetCertList:      func() ([]*transport.Certificate, error) { return []*transport.Certificate{tc}, nil },
	})
	if err != nil {
		c.Inconclusive("NewServer: " + err.Error())
		return
	}
	go srv.Serve()
	defer srv.Close()
	me := fix.SelfSigned()
	cep := nw.Listen(simnet.Addr(2, 40000))
	var sk *keys.KEMPublicKey
	if hidden {
		sk = &kem.Public
	}
	cfg := fix.ClientConfig(me, *pol.config(pki, name, authorized), 3*time.Second, sk)
	cl := transport.NewClient(cep, saddr, cfg)
	// other goroutines of the application ask at the same time and a little
	// later (the elected caller is delayed around the moment it publishes its
	// result): nobody may be told that the handshake succeeded unless it did
	pt := perturb.Install(uint64(len(p.Class))*7919+uint64(len(pol.Name)), false, 100)
	var others [4]error
	var owg sync.WaitGroup
	for k := range others {
		owg.Add(1)
		late := time.Duration(k) * 900 * time.Microsecond
		go func() {
			defer owg.Done()
			time.Sleep(late)
			others[k] = cl.Handshake()
		}()
	}
	res := runHandshake(cl)
	bub.Within(bub.Go(owg.Wait), 60*time.Second)
	pt.Remove()
	defer cl.Close()
	policyOK, legit := legitimate(pol, p, authSet)
	if res.Err != nil && res.Returned {
		for k, e := range others {
			if e == nil {
				c.Violate("C01:another-caller-is-told-the-failed-handshake-succeeded:"+p.Class, map[string]any{"policy": pol.Name, "class": p.Class, "caller": k, "elected_callers_error": res.Err.Error()})
				return
			}
		}
	}
	mode := "discoverable"
	if hidden {
		mode = "hidden"
	}
	r.Count("evaluations", 1)
	r.Count("cells:client-verifies-server", 1)
	cell := fmt.Sprintf("%s|cvs|%s|%s", mode, pol.Name, p.Class)
	r.Nontrivial(cell)
	detail := map[string]any{"mode": mode, "direction": "client verifies server", "policy": pol.Name, "class": p.Class, "policy_ok": policyOK, "holds_key": p.HoldsKey, "client_err": fmt.Sprint(res.Err)}
	if res.Err == nil && !legit {
		c.Violate(fmt.Sprintf("C01:client-accepts-illegitimate-server:%s:%s:%s", mode, pol.Name, p.Class), detail)
		return
	}
	if res.Err != nil && legit {
		r.Count("legitimate_but_refused:"+cell, 1)
		if p.Class == "honest-chain" && !pol.Veto {
			c.Inconclusive("honest cell did not complete: " + cell + ": " + res.Err.Error())
		}
		return
	}
	if res.Err == nil {
		r.Count("legitimate_completed", 1)
		// and it carries data
		bub.Settle(50 * time.Millisecond)
		h, err := srv.AcceptTimeout(time.Second)
		if err == nil {
			cl.WriteMsg([]byte("ping"))
			buf := make([]byte, 100)
			h.SetReadDeadline(time.Now().Add(time.Second))
			if n, err := h.ReadMsg(buf); err != nil || string(buf[:n]) != "ping" {
				c.Inconclusive("legitimate cell completed but carried no data: " + cell)
			}
		}
	} else {
		r.Count("illegitimate_refused", 1)
	}
}

// serverVerifiesClient: the counterpart is a client presenting p.
func serverVerifiesClient(r *vh.Runner, c *vh.Case, pki *fix.PKI, hidden bool, pol policy, p *presented, name certs.Name, authorized []keys.DHPublicKey, authSet map[keys.DHPublicKey]bool, rng *vh.Rand) {
	if p.RawLeaf != nil {
		return // a client can only present what certs.Certificate serialises; raw garbage is C02/C10 territory
	}
	nw := simnet.New(true)
	saddr := simnet.Addr(1, 7777)
	sep := nw.Listen(saddr)
	sid := pki.IssueServer(fix.ServerName)
	srv, err := transport.NewServer(sep, fix.ServerConfig(sid, pol.config(pki, name, authorized), 5*time.Second))
	if err != nil {
		c.Inconclusive("NewServer: " + err.Error())
		return
	}
	go srv.Serve()
	defer srv.Close()
	caddr := simnet.Addr(2, 40000)
	cep := nw.Listen(caddr)
	var sk *keys.KEMPublicKey
	if hidden {
		sk = &sid.KEM.Public
	}
	cfg := transport.ClientConfig{Exchanger: p.exchanger(), Leaf: p.Leaf, Intermediate: p.Int, HSTimeout: 3 * time.Second, ServerKEMKey: sk,
		Verify: transport.VerifyConfig{InsecureSkipVerify: true}}
	cl := transport.NewClient(cep, saddr, cfg)
	res := runHandshake(cl)
	defer cl.Close()
	marker := []byte("client-data-" + p.Class)
	if res.Err == nil {
		cl.WriteMsg(marker)
	}
	bub.Settle(200 * time.Millisecond)
	policyOK, legit := legitimate(pol, p, authSet)
	mode := "discoverable"
	if hidden {
		mode = "hidden"
	}
	r.Count("evaluations", 1)
	r.Count("cells:server-verifies-client", 1)
	cell := fmt.Sprintf("%s|svc|%s|%s", mode, pol.Name, p.Class)
	r.Nontrivial(cell)

	handles := drainAccept2(srv)
	offered := len(handles) > 0
	// the adversary also injects transport packets for every session the
	// server created for this flow: random bodies and replays of what the
	// client sent
	var clientPkts [][]byte
	for _, ev := range nw.Log() {
		if ev.Kind == "tx" && ev.Src == caddr.String() && len(ev.Data) > 0 && ev.Data[0] == 0x10 {
			clientPkts = append(clientPkts, ev.Data)
		}
	}
	for _, s := range srv.VerifSessions() {
		for k := 0; k < 4; k++ {
			pkt := make([]byte, 16+48+rng.Intn(40))
			rng.Fill(pkt)
			pkt[0], pkt[1], pkt[2], pkt[3] = 0x10, 0, 0, 0
			copy(pkt[4:8], s.ID[:])
			for i := 8; i < 15; i++ {
				pkt[i] = 0
			}
			pkt[15] = byte(k)
			nw.Inject(simnet.Delivery{Data: pkt, Src: caddr, Dst: saddr, Tag: "forged"})
		}
		for _, cp := range clientPkts {
			nw.Inject(simnet.Delivery{Data: cp, Src: caddr, Dst: saddr, Tag: "replay"})
		}
	}
	bub.Settle(100 * time.Millisecond)
	delivered := 0
	var got []byte
	for _, h := range handles {
		buf := make([]byte, 4096)
		for {
			h.SetReadDeadline(time.Now().Add(300 * time.Millisecond))
			n, err := h.ReadMsg(buf)
			if err != nil {
				break
			}
			delivered++
			got = append([]byte(nil), buf[:n]...)
		}
	}
	detail := map[string]any{"mode": mode, "direction": "server verifies client", "policy": pol.Name, "class": p.Class, "policy_ok": policyOK, "holds_key": p.HoldsKey,
		"client_err": fmt.Sprint(res.Err), "offered_by_accept": offered, "messages_delivered": delivered, "last_delivered": string(got)}
	if !legit {
		if delivered > 0 {
			c.Violate(fmt.Sprintf("C01:server-delivers-data-from-illegitimate-client:%s:%s:%s", mode, pol.Name, p.Class), detail)
			return
		}
		if offered && !hidden {
			c.Violate(fmt.Sprintf("C01:server-offers-illegitimate-client:%s:%s:%s", mode, pol.Name, p.Class), detail)
			return
		}
		r.Count("illegitimate_refused", 1)
		if offered && hidden {
			r.Count("hidden_offered_before_proof(allowed)", 1)
		}
		return
	}
	if delivered == 0 || !bytes.Equal(got, marker) && delivered == 1 {
		r.Count("legitimate_but_refused:"+cell, 1)
		if p.Class == "honest-chain" && !pol.Veto {
			c.Inconclusive("honest cell carried no data: " + cell + ": " + fmt.Sprint(res.Err))
		}
		return
	}
	r.Count("legitimate_completed", 1)
}

func drainAccept2(s *transport.Server) []*transport.Handle {
	var hs []*transport.Handle
	for {
		h, err := s.AcceptTimeout(time.Millisecond)
		if err != nil {
			return hs
		}
		hs = append(hs, h)
	}
}

// keySetHistory: the set of authorized keys changes while the server runs (as
// it does when authorization grants come and go): a key opens the door exactly
// while it is in the set.
func keySetHistory(r *vh.Runner, c *vh.Case, rep int) {
	rng := vh.NewRand(r.Seed, "c01-keyset", rep)
	ks := authkeys.NewSyncAuthKeySet()
	cv := &transport.VerifyConfig{AuthKeys: ks, AuthKeysAllowed: true}
	hidden := rng.Chance(0.4)
	w := fix.NewWorld(false, cv, nil)
	defer w.Server.Close()
	ids := []*fix.Identity{fix.SelfSigned(), fix.SelfSigned()}
	in := []bool{false, false}
	var history []string
	for step := 0; step < 6+rng.Intn(8) && !c.Violated(); step++ {
		k := rng.Intn(2)
		switch rng.Intn(3) {
		case 0:
			ks.AddKey(ids[k].Key.Public)
			in[k] = true
			history = append(history, fmt.Sprintf("add K%d", k))
		case 1:
			ks.RemoveKey(ids[k].Key.Public)
			in[k] = false
			history = append(history, fmt.Sprintf("remove K%d", k))
		}
		k = rng.Intn(2)
		cl, _ := w.NewClient(ids[k], hidden, 2*time.Second)
		err := cl.Handshake()
		admitted := false
		if err == nil {
			if h, aerr := w.Server.AcceptTimeout(300 * time.Millisecond); aerr == nil {
				admitted = true
				h.Close()
			}
		}
		cl.Close()
		history = append(history, fmt.Sprintf("K%d connects: admitted=%v", k, admitted))
		r.Count("evaluations", 1)
		r.Count("key_set_history_connects", 1)
		if admitted && !in[k] {
			c.Violate("C01:server-admits-a-key-that-is-not-in-the-authorized-set:after-add-remove-history", map[string]any{"history": history, "hidden": hidden})
		}
		if admitted {
			r.Count("key_set_history_admitted", 1)
		}
	}
	r.Nontrivial(fmt.Sprintf("keyset|%d", rep))
}

func genC01(r *vh.Runner) {
	nk := r.Pick(8, 400)
	for k := 0; k < nk; k++ {
		r.Case(fmt.Sprintf("key-set-history/%d", k), map[string]any{"rep": k}, func(c *vh.Case) {
			c.Bubble(func() { keySetHistory(r, c, k) })
		})
	}
	seeds := r.Pick(2, 4000)
	for seed := 0; seed < seeds; seed++ {
		for _, hidden := range []bool{false, true} {
			for _, dir := range []string{"cvs", "svc"} {
				pols := clientPolicies
				if dir == "svc" {
					pols = serverPolicies
				}
				for _, pol := range pols {
					name := fmt.Sprintf("%s/hidden=%v/%s/seed%d", dir, hidden, pol.Name, seed)
					r.Case(name, map[string]any{"direction": dir, "hidden": hidden, "policy": pol.Name, "seed": seed}, func(c *vh.Case) {
						c.Bubble(func() {
							rng := vh.NewRand(r.Seed, "c01", dir, hidden, pol.Name, seed)
							pki, other := fix.NewPKI(), fix.NewPKI()
							// move the clock so that certificates can lie in the past of "now"
							// while their issuers were already valid
							time.Sleep(time.Duration(20+rng.Intn(200)) * 24 * time.Hour)
							expected := certs.DNSName(fmt.Sprintf("host%d.example", rng.Intn(1000)))
							if dir == "svc" {
								expected = certs.RawStringName(fmt.Sprintf("user%d", rng.Intn(1000)))
							}
							cls := classes(pki, other, expected, rng)
							var authorized []keys.DHPublicKey
							authSet := map[keys.DHPublicKey]bool{}
							for _, p := range cls {
								if p.Leaf != nil && p.Class != "untrusted-root" && p.Class != "no-intermediate-presented" {
									authorized = append(authorized, p.Leaf.PublicKey)
									authSet[p.Leaf.PublicKey] = true
								}
							}
							// every class is presented twice in a row to verifiers that
							// share one trust store: what was refused once is refused again
							for _, p := range cls {
								for again := 0; again < 2; again++ {
									if dir == "cvs" {
										clientVerifiesServer(r, c, pki, hidden, pol, p, expected, authorized, authSet)
									} else {
										serverVerifiesClient(r, c, pki, hidden, pol, p, expected, authorized, authSet, rng)
									}
								}
							}
							if seed == 0 && pol.Name == "store" {
								r.Sample(map[string]any{"kind": "grid-row", "direction": dir, "hidden": hidden, "policy": pol.Name, "classes": len(cls), "expected_name": string(expected.Label)})
							}
						})
					})
				}
			}
		}
	}
}
