package hsk

// C19 — the server is stateless before a valid cookie and silent in hidden
// mode. Observation points: the server's handshake/session tables (white-box
// accessor), the goroutine count, and the datagrams the server emits on the
// simulated wire.

import (
	"crypto/rand"
	"fmt"
	"net"
	"runtime"
	"time"

	"hop.computer/hop/keys"
	"hop.computer/hop/pkg/verifhook"
	"hop.computer/hop/transport"

	"verif/harness/bub"
	"verif/harness/fix"
	"verif/harness/simnet"
	"verif/harness/vh"
)

func serverTx(w *fix.World, since int) []simnet.WireEvent {
	var out []simnet.WireEvent
	for _, ev := range w.Net.LogSince(since) {
		if ev.Kind == "tx" && ev.Src == w.SrvAddr.String() {
			out = append(out, ev)
		}
	}
	return out
}

// captureFlow runs a handshake from a fresh client and returns the datagrams
// of the flow by type, letting `drop` decide which server replies are
// suppressed (so a handshake can be stopped half-way).
func captureFlow(w *fix.World, id *fix.Identity, hidden bool, dropFromServer func(mt byte) bool, holdFromClient func(mt byte) bool) (map[byte][]byte, *net.UDPAddr, *transport.Client) {
	cl, ep := w.NewClient(id, hidden, 2*time.Second)
	caddr := ep.Source()
	msgs := map[byte][]byte{}
	heldOnce := make(chan struct{}, 1)
	w.Net.SetPolicy(func(d *simnet.Datagram) []simnet.Delivery {
		if len(d.Data) == 0 {
			return passAll(d)
		}
		mt := d.Data[0]
		if sameAddr(d.Src, caddr) {
			if _, ok := msgs[mt]; !ok {
				msgs[mt] = append([]byte(nil), d.Data...)
			}
			if holdFromClient != nil && holdFromClient(mt) {
				select {
				case heldOnce <- struct{}{}:
				default:
				}
				return nil
			}
		}
		if sameAddr(d.Dst, caddr) {
			if _, ok := msgs[mt]; !ok {
				msgs[mt] = append([]byte(nil), d.Data...)
			}
			if dropFromServer != nil && dropFromServer(mt) {
				return nil
			}
		}
		return passAll(d)
	})
	done := bub.Go(func() { runHandshake(cl) })
	select {
	case <-done:
	case <-heldOnce:
		// the flow is stopped here on purpose: do not let virtual time run on
		cl.Close()
		<-done
	}
	w.Net.SetPolicy(nil)
	return msgs, caddr, cl
}

func genC19(r *vh.Runner) {
	// (a) client hellos leave no state
	floods := r.Pick(4, 2000)
	for f := 0; f < floods; f++ {
		r.Case(fmt.Sprintf("hello-flood/%d", f), map[string]any{"flood": f}, func(c *vh.Case) {
			c.Bubble(func() { helloFlood(r, c, f) })
		})
	}
	// (b) cookie binding
	acks := r.Pick(8, 20000)
	for a := 0; a < acks; a++ {
		r.Case(fmt.Sprintf("cookie/%d", a), map[string]any{"rep": a}, func(c *vh.Case) {
			c.Bubble(func() { cookieBinding(r, c, a) })
		})
	}
	// (b') acknowledgements built by the harness with a consistent transcript
	nc := r.Pick(6, 4000)
	for a := 0; a < nc; a++ {
		r.Case(fmt.Sprintf("consistent-ack/%d", a), map[string]any{"rep": a}, func(c *vh.Case) {
			c.Bubble(func() { consistentAck(r, c, a) })
		})
	}
	// (d) post-dated hidden requests
	pd := r.Pick(6, 10000)
	for h := 0; h < pd; h++ {
		r.Case(fmt.Sprintf("hidden-post-dated/%d", h), map[string]any{"rep": h}, func(c *vh.Case) { hiddenPostDated(r, c, h) })
	}
	// (f) cookies of another server instance
	nx := r.Pick(4, 400)
	for h := 0; h < nx; h++ {
		r.Case(fmt.Sprintf("cookie-across-servers/%d", h), map[string]any{"rep": h}, func(c *vh.Case) {
			c.Bubble(func() { cookieAcrossServers(r, c, h) })
		})
	}
	// (e) hidden requests with chosen timestamps
	nts := r.Pick(4, 1000)
	for h := 0; h < nts; h++ {
		r.Case(fmt.Sprintf("hidden-timestamps/%d", h), map[string]any{"rep": h}, func(c *vh.Case) {
			c.Bubble(func() { hiddenTimestamps(r, c, h) })
		})
	}
	// (c) hidden server silence
	hid := r.Pick(6, 10000)
	for h := 0; h < hid; h++ {
		r.Case(fmt.Sprintf("hidden-silence/%d", h), map[string]any{"rep": h}, func(c *vh.Case) {
			c.Bubble(func() { hiddenSilence(r, c, h) })
		})
	}
}

// hiddenPostDated: a hidden request whose (sealed, authenticated) timestamp
// lies in the server's future is not fresh. The request is made by a real
// client in a first bubble whose clock has run ahead; a twin of the server
// (same keys and certificates) receives it in a second bubble whose clock has
// not. A request made in the second bubble is the control.
func hiddenPostDated(r *vh.Runner, c *vh.Case, rep int) {
	rng := vh.NewRand(r.Seed, "c19-postdated", rep)
	ahead := time.Duration(rng.Pick(60, 61, 300, 3600, 86400, 400*86400)) * time.Second
	var pki *fix.PKI
	var sid, cid *fix.Identity
	var req []byte
	c.Bubble(func() {
		w, id := newLoggedWorld(func(sc *transport.ServerConfig) { sc.IsHidden = true })
		time.Sleep(ahead)
		held, _, vcl := captureFlow(w, id, true, nil, func(mt byte) bool { return mt == 0x08 })
		vcl.Close()
		w.Server.Close()
		pki, sid, cid, req = w.PKI, w.ServerID, id, held[0x08]
	})
	if req == nil {
		c.Inconclusive("could not capture a hidden request")
		return
	}
	c.Bubble(func() {
		cv := &transport.VerifyConfig{Store: pki.Store()}
		w := fix.NewWorldWith(pki, sid, true, cv, func(sc *transport.ServerConfig) { sc.IsHidden = true })
		defer w.Server.Close()
		mark := w.Net.LogLen()
		w.Net.Inject(simnet.Delivery{Data: req, Src: simnet.Addr(7100+rep, 5100), Dst: w.SrvAddr, Tag: "stim:post-dated-request"})
		bub.Settle(20 * time.Millisecond)
		n := len(serverTx(w, mark))
		r.Count("evaluations", 1)
		r.Count("hidden_stimuli", 1)
		r.Count("post_dated_requests", 1)
		// control: the same client identity, a request made now
		ctl, addrC, ccl := captureFlow(w, cid, true, nil, func(mt byte) bool { return mt == 0x08 })
		ccl.Close()
		mark = w.Net.LogLen()
		w.Net.Inject(simnet.Delivery{Data: ctl[0x08], Src: addrC, Dst: w.SrvAddr, Tag: "stim:control"})
		bub.Settle(20 * time.Millisecond)
		if k := len(serverTx(w, mark)); k != 1 {
			c.Inconclusive(fmt.Sprintf("control: fresh valid hidden request to the twin got %d datagrams", k))
			return
		}
		r.Count("control_requests_answered", 1)
		r.Nontrivial(fmt.Sprintf("hid|postdated|%d", rep))
		if n > 0 {
			c.Violate("C19:hidden-server-answers:post-dated-request", map[string]any{"timestamp_ahead_of_server_s": ahead.Seconds(), "datagrams_emitted": n})
		}
	})
}

// callbackConfig turns a static server configuration into one that hands out
// its certificate through the GetCertificate / GetCertList callbacks (the way
// hopserver configures the transport).
func callbackConfig(sc *transport.ServerConfig) {
	tc := &transport.Certificate{RawLeaf: fix.Raw(sc.Certificate), RawIntermediate: fix.Raw(sc.Intermediate), Exchanger: sc.KeyPair, KEMKeyPair: sc.KEMKeyPair, Leaf: sc.Certificate}
	sc.GetCertificate = func(transport.ClientHandshakeInfo) (*transport.Certificate, error) { return tc, nil }
	sc.GetCertList = func() ([]*transport.Certificate, error) { return []*transport.Certificate{tc}, nil }
	sc.Certificate, sc.Intermediate, sc.KeyPair, sc.KEMKeyPair = nil, nil, nil, nil
	if sc.IsHidden {
		// as hopserver.NewHopServer sets a hidden virtual host up
		tc.HostNames = []string{string(fix.ServerName.Label)}
		sc.HiddenModeVHostNames = tc.HostNames
	}
}

// cookieAcrossServers: a cookie minted by one server instance means nothing to
// another instance (each has its own cookie key), whatever way the servers
// were configured, also right after start-up.
func cookieAcrossServers(r *vh.Runner, c *vh.Case, rep int) {
	tweak := func(sc *transport.ServerConfig) {}
	how := "static-config"
	if rep%2 == 0 {
		tweak, how = callbackConfig, "callback-config"
	}
	w1, id := newLoggedWorld(tweak)
	hold := func(mt byte) bool { return mt == 0x03 }
	m, addr, cl := captureFlow(w1, id, false, nil, hold)
	cl.Close()
	w1.Server.Close()
	ack := m[0x03]
	if ack == nil {
		c.Inconclusive("could not capture a client ack")
		return
	}
	w2, _ := newLoggedWorld(tweak)
	defer w2.Server.Close()
	h0, s0 := w2.Server.VerifTableSizes()
	mark := w2.Net.LogLen()
	w2.Net.Inject(simnet.Delivery{Data: ack, Src: addr, Dst: w2.SrvAddr, Tag: "ack:minted-by-another-server-instance"})
	bub.Settle(50 * time.Millisecond)
	h1, s1 := w2.Server.VerifTableSizes()
	tx := serverTx(w2, mark)
	r.Count("evaluations", 1)
	r.Count("client_acks_delivered:minted-by-another-server-instance:"+how, 1)
	r.Nontrivial(fmt.Sprintf("ack-across|%d", rep))
	if len(tx) > 0 || h1 > h0 || s1 > s0 {
		c.Violate("C19:client-ack-accepted:cookie-minted-by-another-server-instance:"+how, map[string]any{"datagrams_emitted": len(tx), "tables_before": []int{h0, s0}, "tables_after": []int{h1, s1}})
	}
}

// hiddenTimestamps: real clients build otherwise perfectly valid hidden
// requests whose sealed timestamp is chosen by the harness (hook on the clock
// reading the client is about to seal): everything that is not within the last
// five seconds of the server's clock must be met with silence.
func hiddenTimestamps(r *vh.Runner, c *vh.Case, rep int) {
	rng := vh.NewRand(r.Seed, "c19-ts", rep)
	w, id := newLoggedWorld(func(sc *transport.ServerConfig) { sc.IsHidden = true })
	defer w.Server.Close()
	type tsCase struct {
		name  string
		ts    func(now int64) int64
		fresh bool
	}
	cases := []tsCase{
		{"now", func(n int64) int64 { return n }, true},
		{"10-seconds-old", func(n int64) int64 { return n - 10 }, false},
		{"one-hour-old", func(n int64) int64 { return n - 3600 }, false},
		{"one-minute-ahead", func(n int64) int64 { return n + 60 }, false},
		{"one-hour-ahead", func(n int64) int64 { return n + 3600 }, false},
		{"zero", func(n int64) int64 { return 0 }, false},
		{"top-bit-set", func(n int64) int64 { return -1 << 63 }, false},
		{"top-bit-plus-now", func(n int64) int64 { return (-1 << 63) + n }, false},
		{"top-bit-plus-now-minus-3", func(n int64) int64 { return (-1 << 63) + n - 3 }, false},
		{"all-ones", func(n int64) int64 { return -1 }, false},
		{"max-int64", func(n int64) int64 { return 1<<63 - 1 }, false},
		{"random-64-bit", func(n int64) int64 { return int64(rng.U64()) }, false},
	}
	for _, tc := range cases {
		prev := verifhook.Install(&verifhook.Handler{Int64: func(point string, v int64) int64 {
			if point == "transport.hidden-request.timestamp" {
				return tc.ts(v)
			}
			return v
		}})
		held, addr, cl := captureFlow(w, id, true, nil, func(mt byte) bool { return mt == 0x08 })
		verifhook.Install(prev)
		cl.Close()
		req := held[0x08]
		if req == nil {
			c.Inconclusive("could not capture a hidden request")
			return
		}
		mark := w.Net.LogLen()
		w.Net.Inject(simnet.Delivery{Data: req, Src: addr, Dst: w.SrvAddr, Tag: "stim:timestamp-" + tc.name})
		bub.Settle(20 * time.Millisecond)
		n := len(serverTx(w, mark))
		r.Count("evaluations", 1)
		r.Count("hidden_stimuli", 1)
		r.Count("hidden_request_timestamps:"+tc.name, 1)
		r.Nontrivial(fmt.Sprintf("hid|ts|%d|%s", rep, tc.name))
		switch {
		case tc.fresh && n != 1:
			c.Inconclusive(fmt.Sprintf("control: request with the current time got %d datagrams", n))
			return
		case !tc.fresh && n > 0:
			c.Violate("C19:hidden-server-answers:request-with-timestamp:"+tc.name, map[string]any{"datagrams_emitted": n})
			return
		}
	}
}

func newLoggedWorld(tweak func(*transport.ServerConfig)) (*fix.World, *fix.Identity) {
	cv := &transport.VerifyConfig{}
	w := fix.NewWorld(true, cv, tweak)
	cv.Store = w.PKI.Store()
	return w, w.PKI.Issue()
}

func helloFlood(r *vh.Runner, c *vh.Case, f int) {
	rng := vh.NewRand(r.Seed, "c19-flood", f)
	w, id := newLoggedWorld(nil)
	defer w.Server.Close()
	// distinct valid hellos from real clients whose ServerHello is dropped
	nKeys := 5 + rng.Intn(10)
	var hellos [][]byte
	for k := 0; k < nKeys; k++ {
		msgs, _, cl := captureFlow(w, id, false, func(mt byte) bool { return mt == 0x02 }, nil)
		cl.Close()
		if h, ok := msgs[0x01]; ok {
			hellos = append(hellos, h)
		}
	}
	if len(hellos) == 0 {
		c.Inconclusive("no client hello captured")
		return
	}
	bub.Settle(6 * time.Second) // let anything pending expire
	h0, s0 := w.Server.VerifTableSizes()
	g0 := runtime.NumGoroutine()
	var m0 runtime.MemStats
	runtime.ReadMemStats(&m0)
	mark := w.Net.LogLen()
	nAddrs := 100 + rng.Intn(200)
	perAddr := 1 + rng.Intn(4)
	sent := 0
	for a := 0; a < nAddrs; a++ {
		src := simnet.Addr(5000+a*7+f*100000%60000, 1024+rng.Intn(60000))
		for k := 0; k < perAddr; k++ {
			w.Net.Inject(simnet.Delivery{Data: hellos[rng.Intn(len(hellos))], Src: src, Dst: w.SrvAddr, Tag: "hello"})
			sent++
		}
	}
	bub.Settle(100 * time.Millisecond)
	h1, s1 := w.Server.VerifTableSizes()
	g1 := runtime.NumGoroutine()
	var m1 runtime.MemStats
	runtime.ReadMemStats(&m1)
	replies := 0
	for _, ev := range serverTx(w, mark) {
		if len(ev.Data) > 0 && ev.Data[0] == 0x02 {
			replies++
		}
	}
	r.Count("evaluations", int64(sent))
	r.Count("client_hellos_injected", int64(sent))
	r.Count("server_hellos_observed", int64(replies))
	r.Count("heap_growth_bytes_recorded_not_judged", int64(m1.HeapAlloc)-int64(m0.HeapAlloc))
	if replies != sent {
		c.Inconclusive(fmt.Sprintf("non-vacuity: %d hellos injected, %d server hellos seen", sent, replies))
		return
	}
	r.Nontrivial(fmt.Sprintf("flood|%d|%d|%d", f, nAddrs, perAddr))
	detail := map[string]any{"hellos": sent, "addresses": nAddrs, "tables_before": []int{h0, s0}, "tables_after": []int{h1, s1}, "goroutines_before": g0, "goroutines_after": g1}
	if h1 != h0 || s1 != s0 {
		c.Violate("C19:state-after-client-hello:tables-grow", detail)
	}
	if g1 > g0 {
		c.Violate("C19:state-after-client-hello:goroutines-grow", detail)
	}
	if f == 0 {
		r.Sample(map[string]any{"kind": "hello-flood", "detail": detail})
	}
}

const (
	// ClientAck = header | DH ephemeral | KEM ephemeral | cookie | SNI | MAC
	ackKemOff    = transport.HeaderLen + transport.DHLen
	ackCookieOff = ackKemOff + transport.KemKeyLen
	ackCookieEnd = ackCookieOff + transport.PQCookieLen
)

// cookieBinding: a client acknowledgement is held by the adversary and
// delivered in several variants to fresh servers' twins; only the unmodified
// one from the original address may be answered.
func cookieBinding(r *vh.Runner, c *vh.Case, rep int) {
	rng := vh.NewRand(r.Seed, "c19-cookie", rep)
	w, id := newLoggedWorld(nil)
	defer w.Server.Close()
	w.V6 = rep%3 == 1 // every third repetition with IPv6 clients
	// two flows stopped before their ClientAck reaches the server
	hold := func(mt byte) bool { return mt == 0x03 }
	ma, addrA, ca := captureFlow(w, id, false, nil, hold)
	mb, _, cb := captureFlow(w, id, false, nil, hold)
	ca.Close()
	cb.Close()
	ackA, ackB := ma[0x03], mb[0x03]
	if ackA == nil || ackB == nil || len(ackA) != len(ackB) || len(ackA) < ackCookieEnd {
		c.Inconclusive("could not capture two client acks")
		return
	}
	otherIP := &net.UDPAddr{IP: net.IPv4(10, 9, byte(rng.Intn(250)), byte(1+rng.Intn(250))), Port: addrA.Port}
	if addrA.IP.To4() == nil { // another IPv6 address, differing in one byte anywhere
		ip := append(net.IP(nil), addrA.IP...)
		ip[rng.Intn(16)] ^= byte(1 + rng.Intn(255))
		otherIP = &net.UDPAddr{IP: ip, Port: addrA.Port}
	}
	otherPort := &net.UDPAddr{IP: addrA.IP, Port: addrA.Port + 1 + rng.Intn(100)}
	withCookieOfB := append([]byte(nil), ackA...)
	copy(withCookieOfB[ackCookieOff:ackCookieEnd], ackB[ackCookieOff:ackCookieEnd])
	withKeyOfB := append([]byte(nil), ackA...)
	copy(withKeyOfB[ackKemOff:ackCookieOff], ackB[ackKemOff:ackCookieOff])
	// parts of the client's KEM key exchanged or flipped: every byte of it is bound
	keyTail := append([]byte(nil), ackA...)
	copy(keyTail[ackCookieOff-32:ackCookieOff], ackB[ackCookieOff-32:ackCookieOff])
	keyHead := append([]byte(nil), ackA...)
	copy(keyHead[ackKemOff:ackKemOff+32], ackB[ackKemOff:ackKemOff+32])
	keyFlip := append([]byte(nil), ackA...)
	keyFlip[ackKemOff+[]int{0, 1, 400, 767, 768, 769, 798, 799, rng.Intn(transport.KemKeyLen)}[rng.Intn(9)]] ^= byte(1 << uint(rng.Intn(8)))
	dhFlip := append([]byte(nil), ackA...)
	dhFlip[transport.HeaderLen+rng.Intn(transport.DHLen)] ^= byte(1 << uint(rng.Intn(8)))
	// ports that agree in their low byte, or in their high byte
	port256 := &net.UDPAddr{IP: addrA.IP, Port: (addrA.Port+256*(1+rng.Intn(100))-1)%65535 + 1}
	portLow := &net.UDPAddr{IP: addrA.IP, Port: addrA.Port ^ (1 + rng.Intn(255))}
	flipCookie := append([]byte(nil), ackA...)
	flipCookie[ackCookieOff+rng.Intn(transport.PQCookieLen)] ^= byte(1 << uint(rng.Intn(8)))

	type stim struct {
		name  string
		data  []byte
		src   *net.UDPAddr
		wait  time.Duration // before delivery
		legit bool
	}
	stimuli := []stim{
		{"other-ip", ackA, otherIP, 0, false},
		{"other-port", ackA, otherPort, 0, false},
		{"cookie-of-other-client", withCookieOfB, addrA, 0, false},
		{"client-key-of-other-client", withKeyOfB, addrA, 0, false},
		{"client-key-last-32-bytes-of-other-client", keyTail, addrA, 0, false},
		{"client-key-first-32-bytes-of-other-client", keyHead, addrA, 0, false},
		{"client-key-bit-flipped", keyFlip, addrA, 0, false},
		{"client-dh-key-bit-flipped", dhFlip, addrA, 0, false},
		{"other-port-same-low-byte", ackA, port256, 0, false},
		{"other-port-same-high-byte", ackA, portLow, 0, false},
		{"cookie-bit-flipped", flipCookie, addrA, 0, false},
		{"control-unmodified", ackA, addrA, 0, true},
	}
	// order is shuffled, but the control goes last so that earlier rejects
	// cannot be explained by state the control left behind
	for i := len(stimuli) - 2; i > 0; i-- {
		j := rng.Intn(i + 1)
		stimuli[i], stimuli[j] = stimuli[j], stimuli[i]
	}
	judge := func(s stim) {
		time.Sleep(s.wait)
		h0, s0 := w.Server.VerifTableSizes()
		mark := w.Net.LogLen()
		w.Net.Inject(simnet.Delivery{Data: s.data, Src: s.src, Dst: w.SrvAddr, Tag: "ack:" + s.name})
		bub.Settle(50 * time.Millisecond)
		h1, s1 := w.Server.VerifTableSizes()
		tx := serverTx(w, mark)
		auth := 0
		for _, ev := range tx {
			if len(ev.Data) > 0 && ev.Data[0] == 0x04 {
				auth++
			}
		}
		r.Count("evaluations", 1)
		fam := "ipv4"
		if s.src.IP.To4() == nil {
			fam = "ipv6"
		}
		r.Count("client_acks_delivered:"+s.name+":"+fam, 1)
		r.Nontrivial(fmt.Sprintf("ack|%d|%s", rep, s.name))
		detail := map[string]any{"stimulus": s.name, "source": s.src.String(), "minted_for": addrA.String(), "server_auth_emitted": auth, "datagrams_emitted": len(tx),
			"tables_before": []int{h0, s0}, "tables_after": []int{h1, s1}}
		accepted := auth > 0 || h1 > h0 || s1 > s0
		if s.legit {
			if !accepted {
				c.Inconclusive("control client ack was not accepted: " + fmt.Sprint(detail))
			} else {
				r.Count("control_acks_accepted", 1)
			}
			return
		}
		if accepted {
			c.Violate("C19:client-ack-accepted:"+s.name+":"+fam, detail)
		}
	}
	for _, s := range stimuli {
		judge(s)
	}
	// across a cookie-key rotation (2-minute ticker, virtual time): a third
	// flow's ack is delivered from its own address after the key changed
	mc, addrC, cc := captureFlow(w, id, false, nil, hold)
	cc.Close()
	if ackC := mc[0x03]; ackC != nil {
		judge(stim{"after-key-rotation", ackC, addrC, 2*time.Minute + time.Duration(1+rng.Intn(60))*time.Second, false})
	}
	// and across a later rotation: the server has been up for several minutes
	// (its key has already rotated at least once) when the cookie is minted
	md, addrD, cd := captureFlow(w, id, false, nil, hold)
	cd.Close()
	if ackD := md[0x03]; ackD != nil {
		judge(stim{"after-a-later-key-rotation", ackD, addrD, 2*time.Minute + time.Duration(1+rng.Intn(200))*time.Second, false})
	}
	if rep == 0 {
		r.Sample(map[string]any{"kind": "cookie-binding", "stimuli": len(stimuli) + 2, "ack_len": len(ackA)})
	}
}

// consistentAck: the harness plays the client itself. It sends a ClientHello
// for its own KEM key pair, takes the cookie and the shared secret from the
// ServerHello, and answers with acknowledgements that are internally
// consistent (transcript and MAC computed over the key they present) but
// present a key other than the one the cookie was minted for: differing in the
// first or last bytes, in one bit, or altogether. Only the acknowledgement
// with the key of the hello may be answered or leave state.
func consistentAck(r *vh.Runner, c *vh.Case, rep int) {
	rng := vh.NewRand(r.Seed, "c19-consistent", rep)
	w, _ := newLoggedWorld(nil)
	defer w.Server.Close()
	w.V6 = rep%3 == 1
	variants := []string{"same-key", "last-32-bytes-differ", "first-32-bytes-differ", "one-bit-differs", "last-byte-differs", "unrelated-key", "same-key"}
	for vi, variant := range variants {
		src := w.FreshAddr()
		kem, err := keys.GenerateKEMKeyPair(rand.Reader)
		if err != nil {
			c.Inconclusive("kem keygen: " + err.Error())
			return
		}
		pub, _ := kem.Public.MarshalBinary()
		hello, err := transport.VerifClientHello(kem)
		if err != nil {
			c.Inconclusive("hello: " + err.Error())
			return
		}
		mark := w.Net.LogLen()
		w.Net.Inject(simnet.Delivery{Data: hello, Src: src, Dst: w.SrvAddr, Tag: "hello"})
		bub.Settle(20 * time.Millisecond)
		var sh []byte
		for _, ev := range serverTx(w, mark) {
			if len(ev.Data) == transport.HeaderLen+transport.KemCtLen+transport.PQCookieLen+transport.MacLen && ev.Data[0] == 0x02 && ev.Dst == src.String() {
				sh = ev.Data
			}
		}
		if sh == nil {
			c.Inconclusive("no server hello for the harness's own client hello")
			return
		}
		k, err := kem.Decapsulate(sh[transport.HeaderLen : transport.HeaderLen+transport.KemCtLen])
		if err != nil {
			c.Inconclusive("decapsulate: " + err.Error())
			return
		}
		cookie := append([]byte(nil), sh[transport.HeaderLen+transport.KemCtLen:transport.HeaderLen+transport.KemCtLen+transport.PQCookieLen]...)
		present := append([]byte(nil), pub...)
		n := len(present)
		switch variant {
		case "last-32-bytes-differ":
			for i := n - 32; i < n; i++ {
				present[i] ^= byte(1 + rng.Intn(255))
			}
		case "first-32-bytes-differ":
			for i := 0; i < 32; i++ {
				present[i] ^= byte(1 << uint(rng.Intn(4))) // low bits: coefficients stay in range
			}
		case "one-bit-differs":
			present[n-1-rng.Intn(32)] ^= byte(1 << uint(rng.Intn(8)))
		case "last-byte-differs":
			present[n-1] ^= byte(1 + rng.Intn(255))
		case "unrelated-key":
			other, _ := keys.GenerateKEMKeyPair(rand.Reader)
			present, _ = other.Public.MarshalBinary()
		}
		ack, err := transport.VerifClientAck(present, k, cookie, fix.ServerName)
		if err != nil {
			// the presented bytes are not a key the library can parse: nothing to deliver
			r.Count("consistent_acks_not_constructible:"+variant, 1)
			continue
		}
		h0, s0 := w.Server.VerifTableSizes()
		mark = w.Net.LogLen()
		w.Net.Inject(simnet.Delivery{Data: ack, Src: src, Dst: w.SrvAddr, Tag: "consistent-ack:" + variant})
		bub.Settle(50 * time.Millisecond)
		h1, s1 := w.Server.VerifTableSizes()
		auth := 0
		tx := serverTx(w, mark)
		for _, ev := range tx {
			if len(ev.Data) > 0 && ev.Data[0] == 0x04 {
				auth++
			}
		}
		accepted := auth > 0 || h1 > h0 || s1 > s0
		r.Count("evaluations", 1)
		r.Count("consistent_acks_delivered:"+variant, 1)
		r.Nontrivial(fmt.Sprintf("cack|%d|%d", rep, vi))
		detail := map[string]any{"variant": variant, "source": src.String(), "server_auth_emitted": auth, "datagrams_emitted": len(tx),
			"tables_before": []int{h0, s0}, "tables_after": []int{h1, s1}}
		if variant == "same-key" {
			if !accepted {
				c.Inconclusive("control: consistent acknowledgement with the hello's key was not accepted: " + fmt.Sprint(detail))
				return
			}
			r.Count("control_acks_accepted", 1)
			continue
		}
		if accepted {
			c.Violate("C19:client-ack-accepted:consistent-transcript:"+variant, detail)
			return
		}
	}
}

// hiddenSilence: a hidden-mode server must emit nothing unless the stimulus is
// a fresh well-formed hidden request under its own KEM key.
func hiddenSilence(r *vh.Runner, c *vh.Case, rep int) {
	rng := vh.NewRand(r.Seed, "c19-hidden", rep)
	// a discoverable twin to harvest well-formed discoverable messages from
	tw, tid := newLoggedWorld(nil)
	disc, _, dcl := captureFlow(tw, tid, false, nil, nil)
	dcl.Close()
	// a hidden request built for another server's KEM key
	foreign, _, fcl := captureFlow(tw, tid, true, nil, nil)
	fcl.Close()
	tw.Server.Close()

	// the hidden server is configured statically or, like a server built by
	// hopserver, through the certificate callbacks (no top-level keys); its
	// handshake time-out is anything from none to minutes
	hsTO := time.Duration([]int{15, 300, 0, 5, 60, 2}[rep%6]) * time.Second
	viaCallbacks := rep%2 == 1
	w, id := newLoggedWorld(func(sc *transport.ServerConfig) {
		sc.IsHidden = true
		sc.HandshakeTimeout = hsTO
		if viaCallbacks {
			callbackConfig(sc)
		}
	})
	r.Count(fmt.Sprintf("hidden_server_configured_via_callbacks:%v", viaCallbacks), 1)
	defer w.Server.Close()
	// a valid request for this server, captured but not delivered
	held, addrV, vcl := captureFlow(w, id, true, nil, func(mt byte) bool { return mt == 0x08 })
	vcl.Close()
	req := held[0x08]
	if req == nil || foreign[0x08] == nil || len(disc) < 5 {
		c.Inconclusive("could not capture stimuli")
		return
	}
	capturedAt := time.Now()
	type stim struct {
		name  string
		data  []byte
		legit bool
	}
	var stimuli []stim
	for _, mt := range discMsgs {
		stimuli = append(stimuli, stim{"discoverable-" + msgNames[mt], disc[mt], false})
	}
	stimuli = append(stimuli, stim{"hidden-request-for-other-kem-key", foreign[0x08], false})
	// truncations of the valid request (sampled lengths in quick, all in thorough via reps)
	nTrunc := 40
	for k := 0; k < nTrunc; k++ {
		l := rng.Intn(len(req))
		if k < 8 {
			l = []int{0, 1, 3, 4, 5, len(req) - 1, len(req) - 16, len(req) - 17}[k]
		}
		stimuli = append(stimuli, stim{fmt.Sprintf("truncated-request(%d)", l), req[:l], false})
	}
	for k := 0; k < 20; k++ {
		j := rng.Bytes(rng.Pick(0, 1, 4, 20, 100, 1000, len(req)))
		if len(j) > 0 && rng.Bool() {
			j[0] = byte(rng.Pick(0x08, 0x01, 0x03, 0x05, 0x10, 0x80, 0x09))
		}
		stimuli = append(stimuli, stim{"junk", j, false})
	}
	for k := 0; k < 10; k++ {
		m := append([]byte(nil), req...)
		m[rng.Intn(len(m))] ^= byte(1 << uint(rng.Intn(8)))
		stimuli = append(stimuli, stim{"bit-flipped-request", m, false})
	}
	deliver := func(s stim, src *net.UDPAddr) (emitted int) {
		mark := w.Net.LogLen()
		w.Net.Inject(simnet.Delivery{Data: s.data, Src: src, Dst: w.SrvAddr, Tag: "stim:" + s.name})
		bub.Settle(10 * time.Millisecond)
		return len(serverTx(w, mark))
	}
	for i, s := range stimuli {
		src := simnet.Addr(7000+i, 5000+i)
		n := deliver(s, src)
		r.Count("evaluations", 1)
		r.Count("hidden_stimuli", 1)
		r.Nontrivial(fmt.Sprintf("hid|%d|%d|%s", rep, i, s.name))
		if n > 0 {
			sig := s.name
			if j := len("truncated-request"); len(sig) > j && sig[:j] == "truncated-request" {
				sig = "truncated-request"
			}
			c.Violate("C19:hidden-server-answers:"+sig, map[string]any{"stimulus": s.name, "len": len(s.data), "datagrams_emitted": n})
		}
	}
	// control: a second, fresh valid request gets exactly one response
	{
		ctl, addrC, ccl := captureFlow(w, id, true, nil, func(mt byte) bool { return mt == 0x08 })
		ccl.Close()
		n := deliver(stim{"control-fresh-request", ctl[0x08], true}, addrC)
		r.Count("evaluations", 1)
		if n != 1 {
			c.Inconclusive(fmt.Sprintf("control: fresh valid hidden request got %d datagrams", n))
		} else {
			r.Count("control_requests_answered", 1)
		}
		// replay inside the window: fresh by the protocol's own definition, recorded only
		n = deliver(stim{"replay-inside-window", ctl[0x08], true}, simnet.Addr(7999, 5999))
		r.Count("replay_inside_window_datagrams(not judged)", int64(n))
	}
	// stale: the same request after the 5 s window, from its own and from another address
	// (at several ages: whatever else the server is configured with, the window is 5 s)
	for ai, age := range []int{6 + rng.Intn(2), 8 + rng.Intn(4), 14, 30 + rng.Intn(30), 100 + rng.Intn(200), 400} {
		if d := time.Duration(age)*time.Second - time.Since(capturedAt); d > 0 {
			time.Sleep(d)
		}
		for i, src := range []*net.UDPAddr{addrV, simnet.Addr(7998-ai, 5998)} {
			n := deliver(stim{"stale-request", req, false}, src)
			r.Count("evaluations", 1)
			r.Count("hidden_stimuli", 1)
			r.Nontrivial(fmt.Sprintf("hid|%d|stale|%d|%d", rep, ai, i))
			if n > 0 {
				c.Violate("C19:hidden-server-answers:stale-request", map[string]any{"age_s": time.Since(capturedAt).Seconds(), "datagrams_emitted": n, "server_handshake_timeout": hsTO.String()})
				return
			}
		}
	}
	if rep == 0 {
		r.Sample(map[string]any{"kind": "hidden-silence", "stimuli": len(stimuli) + 3, "request_len": len(req)})
	}
}
