// Engine hsk: handshake properties C01, C02, C19. The real transport.Server
// and transport.Client run over the simulated network inside synctest
// bubbles; an adversary policy sits on the wire.
package hsk

import (
	"bytes"
	"crypto/sha256"
	"encoding/hex"
	"fmt"
	"net"
	"testing"
	"time"

	"hop.computer/hop/transport"

	"verif/harness/bub"
	"verif/harness/fix"
	"verif/harness/simnet"
	"verif/harness/vh"
)

func TestEngine(t *testing.T) {
	vh.Main(t, map[string]func(*vh.Runner){"C02": genC02, "C01": genC01, "C19": genC19})
}

var msgNames = map[byte]string{
	0x01: "ClientHello", 0x02: "ServerHello", 0x03: "ClientAck", 0x04: "ServerAuth", 0x05: "ClientAuth",
	0x08: "ClientRequestHidden", 0x09: "ServerResponseHidden", 0x10: "Transport", 0x80: "Control",
}

var discMsgs = []byte{0x01, 0x02, 0x03, 0x04, 0x05}
var hiddenMsgs = []byte{0x08, 0x09}

func fromClient(mt byte) bool { return mt == 0x01 || mt == 0x03 || mt == 0x05 || mt == 0x08 }

func sameAddr(a, b *net.UDPAddr) bool {
	return a != nil && b != nil && a.Port == b.Port && a.IP.Equal(b.IP)
}

func keyHash(k [transport.KeyLen]byte) string {
	h := sha256.Sum256(k[:])
	return hex.EncodeToString(h[:8])
}

// hsResult is the observed outcome of one client handshake attempt.
type hsResult struct {
	Err        error
	Returned   bool // Handshake() returned by itself within the virtual bound
	ClientSess transport.VerifSessionInfo
	ClientOK   bool
}

// runHandshake drives c.Handshake() to an outcome in virtual time.
func runHandshake(c *transport.Client) hsResult {
	var res hsResult
	done := bub.Go(func() { res.Err = c.Handshake() })
	if bub.Within(done, 40*time.Second) {
		res.Returned = true
	} else {
		// a handshake that neither completes nor aborts by itself: release it
		// (C17 judges time-outs; for C02 "not completed" is what matters)
		c.Close()
		<-done
		if res.Err == nil {
			res.Err = fmt.Errorf("handshake did not return; closed by harness")
		}
	}
	if res.Err == nil {
		res.ClientSess, res.ClientOK = c.VerifSession()
	}
	return res
}

// serverSessionFor returns the established server sessions whose peer address
// is addr.
func serverSessionsFor(w *fix.World, addr *net.UDPAddr) []transport.VerifSessionInfo {
	var out []transport.VerifSessionInfo
	for _, s := range w.Server.VerifSessions() {
		if s.Established && sameAddr(s.Remote, addr) {
			out = append(out, s)
		}
	}
	return out
}

// drainAccept empties the accept queue.
func drainAccept(w *fix.World) []*transport.Handle {
	var hs []*transport.Handle
	for {
		h, err := w.Server.AcceptTimeout(time.Millisecond)
		if err != nil {
			return hs
		}
		hs = append(hs, h)
	}
}

// capture is a policy wrapper that records the handshake datagrams of a flow.
type capture struct {
	msgs map[byte][]byte
}

func passAll(d *simnet.Datagram) []simnet.Delivery {
	return []simnet.Delivery{{Data: d.Data, Src: d.Src, Dst: d.Dst, Tag: "genuine"}}
}

// honest runs an honest handshake from a fresh address and checks the
// success-side clauses of C02 (equal ids and keys, directional keys differ,
// data flows both ways). Returns false if the control did not complete.
func honest(r *vh.Runner, c *vh.Case, w *fix.World, id *fix.Identity, hidden bool, cap *capture) bool {
	cl, ep := w.NewClient(id, hidden, 3*time.Second)
	caddr := ep.Source()
	w.Net.SetPolicy(func(d *simnet.Datagram) []simnet.Delivery {
		if cap != nil && (sameAddr(d.Src, caddr) || sameAddr(d.Dst, caddr)) && len(d.Data) > 0 {
			if _, seen := cap.msgs[d.Data[0]]; !seen {
				cap.msgs[d.Data[0]] = append([]byte(nil), d.Data...)
			}
		}
		return passAll(d)
	})
	res := runHandshake(cl)
	defer cl.Close()
	bub.Settle(50 * time.Millisecond)
	r.Count("evaluations", 1)
	r.Count("honest_handshakes", 1)
	if res.Err != nil || !res.ClientOK {
		c.Inconclusive(fmt.Sprintf("honest control handshake failed (hidden=%v): %v", hidden, res.Err))
		return false
	}
	hs := drainAccept(w)
	var mine *transport.Handle
	for _, h := range hs {
		if h.VerifSession().ID == res.ClientSess.ID {
			mine = h
		}
	}
	if mine == nil {
		c.Violate("C02:honest-handshake:server-has-no-session", map[string]any{"hidden": hidden, "client_session": hex.EncodeToString(res.ClientSess.ID[:])})
		return false
	}
	ss := mine.VerifSession()
	cs := res.ClientSess
	switch {
	case ss.C2S != cs.C2S || ss.S2C != cs.S2C:
		c.Violate("C02:completed-with-different-keys", map[string]any{"hidden": hidden})
		return false
	case cs.C2S == cs.S2C:
		c.Violate("C02:directional-keys-equal", map[string]any{"hidden": hidden})
		return false
	case cs.C2S == [transport.KeyLen]byte{}:
		c.Violate("C02:zero-session-key", map[string]any{"hidden": hidden})
		return false
	}
	r.Unique("session-keys", "C02:session-key-reused", keyHash(cs.C2S), keyHash(cs.S2C))
	// first data message decrypts in both directions
	msg := []byte("c2s-probe-" + caddr.String())
	if err := cl.WriteMsg(msg); err != nil {
		c.Violate("C02:honest-handshake:first-message-fails", map[string]any{"dir": "c2s", "err": err.Error()})
		return false
	}
	buf := make([]byte, 2000)
	mine.SetReadDeadline(time.Now().Add(2 * time.Second))
	n, err := mine.ReadMsg(buf)
	if err != nil || !bytes.Equal(buf[:n], msg) {
		c.Violate("C02:honest-handshake:first-message-fails", map[string]any{"dir": "c2s", "err": fmt.Sprint(err)})
		return false
	}
	reply := []byte("s2c-probe-" + caddr.String())
	if err := mine.WriteMsg(reply); err != nil {
		c.Violate("C02:honest-handshake:first-message-fails", map[string]any{"dir": "s2c", "err": err.Error()})
		return false
	}
	cl.SetReadDeadline(time.Now().Add(2 * time.Second))
	n, err = cl.ReadMsg(buf)
	if err != nil || !bytes.Equal(buf[:n], reply) {
		c.Violate("C02:honest-handshake:first-message-fails", map[string]any{"dir": "s2c", "err": fmt.Sprint(err)})
		return false
	}
	return true
}

// tamper describes one in-flight change.
type tamper struct {
	Hidden bool   `json:"hidden"`
	Msg    byte   `json:"msg_type"`
	Name   string `json:"msg"`
	Kind   string `json:"kind"` // flip | trunc | extend | replace | swap
	Off    int    `json:"off,omitempty"`
	Mask   byte   `json:"mask,omitempty"`
	Len    int    `json:"len,omitempty"`
}

func (t tamper) apply(data []byte, donor []byte, rng *vh.Rand) []byte {
	switch t.Kind {
	case "flip":
		m := append([]byte(nil), data...)
		if t.Off < len(m) {
			m[t.Off] ^= t.Mask
		}
		return m
	case "flip-stride":
		// the same mask at t.Len positions a fixed distance (136: the duplex
		// rate) apart, starting at t.Off
		m := append([]byte(nil), data...)
		for k := 0; k < t.Len; k++ {
			if o := t.Off + 136*k; o < len(m) {
				m[o] ^= t.Mask
			}
		}
		return m
	case "trunc":
		if t.Len > len(data) {
			return data
		}
		return append([]byte(nil), data[:t.Len]...)
	case "extend":
		return append(append([]byte(nil), data...), rng.Bytes(t.Len)...)
	case "replace":
		return append([]byte(nil), donor...)
	case "field-from-donor":
		// one field (t.Len bytes at t.Off) taken from the corresponding
		// message of another handshake whose session is still live
		m := append([]byte(nil), data...)
		if t.Off+t.Len <= len(m) && t.Off+t.Len <= len(donor) {
			copy(m[t.Off:t.Off+t.Len], donor[t.Off:t.Off+t.Len])
		}
		return m
	}
	return data
}

// region names the part of the message an offset falls in (discriminator for
// signatures): header, final-mac (last 16 bytes) or body.
func region(off, total int) string {
	switch {
	case off < 4:
		return "header"
	case off >= total-16:
		return "final-mac"
	}
	return "body"
}

// runTamper executes one tampered handshake and judges it.
func runTamper(r *vh.Runner, c *vh.Case, w *fix.World, id *fix.Identity, tp tamper, donor []byte, rng *vh.Rand) {
	cl, ep := w.NewClient(id, tp.Hidden, 3*time.Second)
	caddr := ep.Source()
	applied := false
	origLen := 0
	w.Net.SetPolicy(func(d *simnet.Datagram) []simnet.Delivery {
		if !applied && (sameAddr(d.Src, caddr) || sameAddr(d.Dst, caddr)) && len(d.Data) > 0 && d.Data[0] == tp.Msg {
			applied = true
			origLen = len(d.Data)
			mod := tp.apply(d.Data, donor, rng)
			if bytes.Equal(mod, d.Data) {
				applied = false // nothing changed (e.g. offset beyond this message): not a tamper
				return passAll(d)
			}
			return []simnet.Delivery{{Data: mod, Src: d.Src, Dst: d.Dst, Tag: "tamper:" + tp.Kind}}
		}
		return passAll(d)
	})
	res := runHandshake(cl)
	bub.Settle(100 * time.Millisecond)
	defer cl.Close()
	r.Count("evaluations", 1)
	if !applied {
		r.Count("tamper_not_applicable", 1)
		return
	}
	r.Count("tampered_handshakes", 1)
	r.Count("tampered:"+tp.Name+":"+tp.Kind, 1)
	if !res.Returned {
		r.Count("client_blocked_until_closed:"+tp.Name, 1)
	}
	srv := serverSessionsFor(w, caddr)
	accepted := drainAccept(w)
	reg := ""
	if tp.Kind == "flip" {
		reg = ":" + region(tp.Off, origLen)
	}
	detail := func() map[string]any {
		return map[string]any{"tamper": tp, "client_err": fmt.Sprint(res.Err), "server_sessions_for_flow": len(srv), "accepted_handles": len(accepted), "orig_len": origLen}
	}
	if tp.Kind == "extend" {
		// recorded, not judged: the statement lists alteration, truncation and replacement
		if res.Err == nil && len(srv) > 0 {
			r.Count("extension_tolerated:"+tp.Name, 1)
		} else {
			r.Count("extension_aborts:"+tp.Name, 1)
		}
		return
	}
	r.Nontrivial(fmt.Sprintf("t|%v|%d|%s|%d|%d|%d", tp.Hidden, tp.Msg, tp.Kind, tp.Off, tp.Mask, tp.Len))
	clientMayComplete := tp.Msg == 0x05 // sender of the last discoverable message
	if res.Err == nil && !clientMayComplete {
		c.Violate("C02:client-completes-after-tamper:"+tp.Name+":"+tp.Kind+reg, detail())
	}
	if !serverJudged(tp.Msg, tp.Kind) {
		if len(srv) > 0 || len(accepted) > 0 {
			r.Count("server_side_not_judged:"+tp.Name+":"+tp.Kind, 1)
		}
		return
	}
	if len(srv) > 0 || len(accepted) > 0 {
		c.Violate("C02:server-completes-after-tamper:"+tp.Name+":"+tp.Kind+reg, detail())
	}
}

// serverJudged says whether "the server holds an established session for the
// flow" refutes the property for a change to message mt:
//   - ServerResponseHidden is the last message of the hidden handshake and the
//     server is its sender; like the client after ClientAuth it has completed
//     before the change can be seen by anyone.
//   - A whole ClientRequestHidden transplanted from another handshake is, for
//     the server, that other client's own request arriving again: the server
//     then runs (a replay of) the donor's handshake, not the victim's. Whether
//     such a request is fresh enough to be answered is the timestamp rule that
//     C19 judges. The victim client must still fail, which is judged.
func serverJudged(mt byte, kind string) bool {
	if mt == 0x09 {
		return false
	}
	if mt == 0x08 && (kind == "replace" || kind == "swap") {
		return false
	}
	return true
}

// swapRun: two handshakes run concurrently; message mt of each flow is held
// until both are available and then exchanged.
func swapRun(r *vh.Runner, c *vh.Case, w *fix.World, id *fix.Identity, hidden bool, mt byte) {
	ca, epa := w.NewClient(id, hidden, 3*time.Second)
	cb, epb := w.NewClient(id, hidden, 3*time.Second)
	aa, ab := epa.Source(), epb.Source()
	var held [2]*simnet.Datagram
	swapped := false
	w.Net.SetPolicy(func(d *simnet.Datagram) []simnet.Delivery {
		if len(d.Data) == 0 || d.Data[0] != mt || swapped {
			return passAll(d)
		}
		idx := -1
		if sameAddr(d.Src, aa) || sameAddr(d.Dst, aa) {
			idx = 0
		} else if sameAddr(d.Src, ab) || sameAddr(d.Dst, ab) {
			idx = 1
		}
		if idx < 0 || held[idx] != nil {
			return passAll(d)
		}
		held[idx] = d
		if held[0] != nil && held[1] != nil {
			swapped = true
			return []simnet.Delivery{
				{Data: held[1].Data, Src: held[0].Src, Dst: held[0].Dst, Tag: "tamper:swap"},
				{Data: held[0].Data, Src: held[1].Src, Dst: held[1].Dst, Tag: "tamper:swap"},
			}
		}
		return nil // hold
	})
	var ra, rb hsResult
	da := bub.Go(func() { ra = runHandshake(ca) })
	db := bub.Go(func() { rb = runHandshake(cb) })
	<-da
	<-db
	bub.Settle(100 * time.Millisecond)
	defer ca.Close()
	defer cb.Close()
	r.Count("evaluations", 1)
	if !swapped {
		r.Count("tamper_not_applicable", 1)
		return
	}
	name := msgNames[mt]
	r.Count("tampered_handshakes", 2)
	r.Count("tampered:"+name+":swap", 2)
	r.Nontrivial(fmt.Sprintf("swap|%v|%d", hidden, mt))
	sa, sb := serverSessionsFor(w, aa), serverSessionsFor(w, ab)
	accepted := drainAccept(w)
	detail := map[string]any{"msg": name, "hidden": hidden, "err_a": fmt.Sprint(ra.Err), "err_b": fmt.Sprint(rb.Err), "server_sessions": len(sa) + len(sb), "accepted": len(accepted)}
	if (ra.Err == nil || rb.Err == nil) && mt != 0x05 {
		c.Violate("C02:client-completes-after-tamper:"+name+":swap", detail)
	}
	if serverJudged(mt, "swap") && (len(sa)+len(sb) > 0 || len(accepted) > 0) {
		c.Violate("C02:server-completes-after-tamper:"+name+":swap", detail)
	}
}

func clientVerifyFor(w *fix.PKI) *transport.VerifyConfig {
	return &transport.VerifyConfig{Store: w.Store()}
}

// newWorld starts a server that verifies clients against the world's PKI.
func newWorld() (*fix.World, *fix.Identity) {
	var w *fix.World
	// the server's client policy needs the PKI, which NewWorld creates: build in two steps
	cv := &transport.VerifyConfig{}
	w = fix.NewWorld(false, cv, nil)
	cv.Store = w.PKI.Store()
	return w, w.PKI.Issue()
}

// probeLengths runs honest handshakes in a bubble and returns the length of
// every handshake message as actually produced (the enumeration bounds).
func probeLengths(r *vh.Runner) (map[byte]int, error) {
	lens := map[byte]int{}
	var perr error
	out := bub.Run(r.T, "probe", func() {
		w, id := newWorld()
		defer w.Server.Close()
		for _, hidden := range []bool{false, true} {
			cap := &capture{msgs: map[byte][]byte{}}
			cl, ep := w.NewClient(id, hidden, 3*time.Second)
			caddr := ep.Source()
			w.Net.SetPolicy(func(d *simnet.Datagram) []simnet.Delivery {
				if (sameAddr(d.Src, caddr) || sameAddr(d.Dst, caddr)) && len(d.Data) > 0 {
					if _, seen := cap.msgs[d.Data[0]]; !seen {
						cap.msgs[d.Data[0]] = d.Data
					}
				}
				return passAll(d)
			})
			res := runHandshake(cl)
			bub.Settle(50 * time.Millisecond)
			cl.Close()
			if res.Err != nil {
				perr = fmt.Errorf("probe handshake (hidden=%v) failed: %v", hidden, res.Err)
				return
			}
			for mt, b := range cap.msgs {
				if mt < 0x10 {
					lens[mt] = len(b)
				}
			}
		}
	})
	if perr == nil && !out.OK() && !out.Leak {
		perr = fmt.Errorf("probe bubble: %s %s", out, out.Stack)
	}
	if perr == nil && len(lens) != 7 {
		perr = fmt.Errorf("probe saw %d handshake message types, want 7: %v", len(lens), lens)
	}
	return lens, perr
}

func genC02(r *vh.Runner) {
	var lens map[byte]int
	if !r.Require("probe-handshakes", func() error {
		var err error
		lens, err = probeLengths(r)
		return err
	}) {
		return
	}
	const chunk = 48
	masks := []byte{0, 0x80, 0x01} // 0 = one seed-chosen non-zero mask per offset; plus the top and the bottom bit
	if r.Thorough() {
		masks = nil // every non-zero mask: the single-byte tamper space is enumerated completely
		for m := 1; m < 256; m++ {
			masks = append(masks, byte(m))
		}
	}
	type modeSpec struct {
		hidden bool
		msgs   []byte
	}
	for _, ms := range []modeSpec{{false, discMsgs}, {true, hiddenMsgs}} {
		for _, mt := range ms.msgs {
			L := lens[mt]
			name := msgNames[mt]
			// flips: every offset x masks; truncations: every length 0..L-1
			var list []tamper
			for mi, m := range masks {
				for off := 0; off < L; off++ {
					mask := m
					if mask == 0 {
						mask = byte(1 + vh.NewRand(r.Seed, "c02-mask", mt, off, mi).Intn(255))
					}
					list = append(list, tamper{Hidden: ms.hidden, Msg: mt, Name: name, Kind: "flip", Off: off, Mask: mask})
				}
			}
			for l := 0; l < L; l++ {
				list = append(list, tamper{Hidden: ms.hidden, Msg: mt, Name: name, Kind: "trunc", Len: l})
			}
			for _, l := range []int{1, 16, 100} {
				list = append(list, tamper{Hidden: ms.hidden, Msg: mt, Name: name, Kind: "extend", Len: l})
			}
			// alterations that could cancel in a transcript folded block-wise
			stride := 3
			if r.Thorough() {
				stride = 1
			}
			for off := 4; off+136 < L; off += stride {
				for _, cnt := range []int{2, 4} {
					if off+136*(cnt-1) < L {
						list = append(list, tamper{Hidden: ms.hidden, Msg: mt, Name: name, Kind: "flip-stride", Off: off, Len: cnt,
							Mask: byte(1 + vh.NewRand(r.Seed, "c02-stride", mt, off).Intn(255))})
					}
				}
			}
			// a cut tail is accepted only if what the parser finds behind the
			// datagram happens to equal it: cut again and again (fresh handshakes)
			for rep := 0; rep < r.Pick(1500, 9000); rep++ {
				list = append(list, tamper{Hidden: ms.hidden, Msg: mt, Name: name, Kind: "trunc", Len: L - 1 - rep%3})
			}
			for lo := 0; lo < len(list); lo += chunk {
				hi := min(lo+chunk, len(list))
				batch := list[lo:hi]
				r.Case(fmt.Sprintf("tamper/%s/%d-%d", name, lo, hi), map[string]any{"first": batch[0], "last": batch[len(batch)-1], "n": len(batch)}, func(c *vh.Case) {
					c.Bubble(func() {
						w, id := newWorld()
						defer w.Server.Close()
						rng := vh.NewRand(r.Seed, "c02-batch", mt, lo)
						if !honest(r, c, w, id, ms.hidden, nil) {
							return
						}
						for _, tp := range batch {
							runTamper(r, c, w, id, tp, nil, rng)
							if c.Violated() && !r.Thorough() {
								// keep going: one case may expose several signatures, all are reported once
							}
						}
						// the server must still serve an honest client afterwards
						honest(r, c, w, id, ms.hidden, nil)
						if lo == 0 && mt == 0x04 {
							r.Sample(map[string]any{"kind": "tamper-batch", "first": batch[0], "n": len(batch), "message_len": L})
						}
					})
				})
			}
		}
		// replacement by the corresponding datagram of another handshake
		reps := r.Pick(4, 600)
		for rep := 0; rep < reps; rep++ {
			r.Case(fmt.Sprintf("splice/hidden=%v/%d", ms.hidden, rep), map[string]any{"hidden": ms.hidden, "rep": rep}, func(c *vh.Case) {
				c.Bubble(func() {
					w, id := newWorld()
					defer w.Server.Close()
					rng := vh.NewRand(r.Seed, "c02-splice", ms.hidden, rep)
					donor := &capture{msgs: map[byte][]byte{}}
					if !honest(r, c, w, id, ms.hidden, donor) {
						return
					}
					for _, mt := range ms.msgs {
						if d, ok := donor.msgs[mt]; ok {
							runTamper(r, c, w, id, tamper{Hidden: ms.hidden, Msg: mt, Name: msgNames[mt], Kind: "replace"}, d, rng)
						}
						swapRun(r, c, w, id, ms.hidden, mt)
					}
					// single fields taken from a handshake whose session stays up:
					// the session identifier, and windows anywhere in the message
					liveCl, liveEP := w.NewClient(id, ms.hidden, 3*time.Second)
					live := &capture{msgs: map[byte][]byte{}}
					laddr := liveEP.Source()
					w.Net.SetPolicy(func(d *simnet.Datagram) []simnet.Delivery {
						if (sameAddr(d.Src, laddr) || sameAddr(d.Dst, laddr)) && len(d.Data) > 0 {
							if _, seen := live.msgs[d.Data[0]]; !seen {
								live.msgs[d.Data[0]] = append([]byte(nil), d.Data...)
							}
						}
						return passAll(d)
					})
					lres := runHandshake(liveCl)
					w.Net.SetPolicy(nil)
					defer liveCl.Close()
					bub.Settle(50 * time.Millisecond)
					drainAccept(w) // the live session's own handle is not the tampered flow's
					if lres.Err == nil {
						for _, mt := range ms.msgs {
							d, ok := live.msgs[mt]
							if !ok {
								continue
							}
							fields := [][2]int{{4, 4}, {4, 8}, {8, 4}}
							for k := 0; k < 3; k++ {
								ln := rng.Pick(4, 16, 32)
								if len(d) > ln+4 {
									fields = append(fields, [2]int{4 + rng.Intn(len(d)-ln-4), ln})
								}
							}
							for _, f := range fields {
								runTamper(r, c, w, id, tamper{Hidden: ms.hidden, Msg: mt, Name: msgNames[mt], Kind: "field-from-donor", Off: f[0], Len: f[1]}, d, rng)
							}
						}
					}
					honest(r, c, w, id, ms.hidden, nil)
					if rep == 0 {
						r.Sample(map[string]any{"kind": "splice", "hidden": ms.hidden, "messages": len(ms.msgs)})
					}
				})
			})
		}
	}
	// servers whose handshake timer fires at once (or nearly): whatever then
	// completes on both sides has completed with the same identifier and keys
	nt := r.Pick(24, 600)
	for k := 0; k < nt; k++ {
		r.Case(fmt.Sprintf("tiny-handshake-timeout/%d", k), map[string]any{"rep": k}, func(c *vh.Case) {
			// Every third repetition runs in real time: in a bubble a timer
			// fires only once every goroutine is blocked, so it can never beat
			// a message that is being processed; on a real clock it can.
			realTime := k%3 == 2
			settle := bub.Settle
			run := func(fn func()) { c.Bubble(fn) }
			if realTime {
				settle = time.Sleep
				run = func(fn func()) { fn() }
			}
			run(func() {
				rng := vh.NewRand(r.Seed, "c02-tiny", k)
				hidden := rng.Chance(0.6)
				d := time.Duration(rng.Pick(1, 1, 1000, 100000, 1000000))
				if realTime {
					d = time.Duration(rng.Pick(0, 1, 1, 1000, 20000, 100000, 300000))
				}
				cv := &transport.VerifyConfig{}
				w := fix.NewWorld(true, cv, func(sc *transport.ServerConfig) { sc.HandshakeTimeout = d; sc.IsHidden = hidden })
				cv.Store = w.PKI.Store()
				defer w.Server.Close()
				id := w.PKI.Issue()
				reps := 6
				if realTime {
					reps = 40
				}
				for rep := 0; rep < reps && !c.Violated(); rep++ {
					cl, ep := w.NewClient(id, hidden, 2*time.Second)
					var res hsResult
					if realTime {
						if res.Err = cl.Handshake(); res.Err == nil {
							res.ClientSess, res.ClientOK = cl.VerifSession()
						}
					} else {
						res = runHandshake(cl)
					}
					settle(20 * time.Millisecond)
					r.Count("evaluations", 1)
					r.Count("tiny_timeout_handshakes", 1)
					if realTime {
						r.Count("tiny_timeout_handshakes_in_real_time", 1)
					}
					if res.Err == nil && res.ClientOK {
						for _, ss := range serverSessionsFor(w, ep.Source()) {
							r.Count("tiny_timeout_both_completed", 1)
							if ss.ID != res.ClientSess.ID {
								c.Violate("C02:completed-with-different-session-identifiers", map[string]any{"hidden": hidden, "server_handshake_timeout": d.String(),
									"client": hex.EncodeToString(res.ClientSess.ID[:]), "server": hex.EncodeToString(ss.ID[:])})
							} else if ss.C2S != res.ClientSess.C2S || ss.S2C != res.ClientSess.S2C {
								c.Violate("C02:completed-with-different-keys", map[string]any{"hidden": hidden, "server_handshake_timeout": d.String()})
							}
						}
					}
					cl.Close()
				}
				r.Nontrivial(fmt.Sprintf("tiny|%d", k))
			})
		})
	}
	r.Case("enumeration-complete", lens, func(c *vh.Case) { r.Count("exhaustive_spaces_completed", 1) })
}
