// Engine junk: C10 — no unauthenticated datagram can crash or wedge a
// transport endpoint. Real transport.Server / Client over the simulated
// network in bubbles; the adversary delivers batches of hostile datagrams in
// every endpoint state; after every batch an honest probe handshake from a
// fresh address must complete and carry a message each way, and the
// established session must still carry a message. A panic anywhere kills the
// child process and is attributed by the driver to the batch being run.
package junk

import (
	"bytes"
	"crypto/rand"
	"encoding/binary"
	"fmt"
	"net"
	"os"
	"path/filepath"
	"strings"
	"sync"
	"testing"
	"time"

	"hop.computer/hop/certs"
	"hop.computer/hop/config"
	"hop.computer/hop/hopserver"
	"hop.computer/hop/keys"
	"hop.computer/hop/transport"

	"verif/harness/bub"
	"verif/harness/fix"
	"verif/harness/simnet"
	"verif/harness/vh"
)

func TestEngine(t *testing.T) {
	vh.Main(t, map[string]func(*vh.Runner){"C10": genC10})
}

type world struct {
	net     *simnet.Net
	pki     *fix.PKI
	srv     *transport.Server
	srvEP   *simnet.Endpoint
	srvAddr *net.UDPAddr
	kem     *keys.KEMKeyPair // KEM key a hidden client should use
	name    certs.Name       // name an honest client asks for
	next    int
	client  *fix.Identity
	server  *fix.Identity // single-certificate configurations only
	hidden  bool          // probes use the hidden handshake
	config  string
}

var configs = []string{"single-cert", "single-cert-hidden-only", "multi-vhost", "multi-vhost-hidden", "multi-vhost-hidden-one-block-without-kem-key"}

// vhostServerConfig mirrors the closures hopserver.NewHopServer builds around
// hopserver.VirtualHosts (the real matcher) without binding a UDP socket.
func vhostServerConfig(pki *fix.PKI, hiddenNames []string) (transport.ServerConfig, []*fix.Identity) {
	return vhostServerConfigKEM(pki, hiddenNames, -1)
}

// vhostServerConfigKEM: the host block with index withoutKEM has no KEM key
// (a block that was never meant for hidden mode but is listed for it).
func vhostServerConfigKEM(pki *fix.PKI, hiddenNames []string, withoutKEM int) (transport.ServerConfig, []*fix.Identity) {
	patterns := []string{"alpha.example", "*.beta.example", "gamma*", "*"}
	var ids []*fix.Identity
	var vhosts hopserver.VirtualHosts
	for _, p := range patterns {
		id := pki.IssueServer(certs.DNSName(p))
		ids = append(ids, id)
		kem := id.KEM
		if len(ids)-1 == withoutKEM {
			kem = nil
		}
		tc, err := transport.MakeCert(id.Key, id.Leaf, id.Int, kem)
		if err != nil {
			panic(err)
		}
		vhosts = append(vhosts, hopserver.VirtualHost{Pattern: p, Certificate: *tc})
	}
	getCert := func(info transport.ClientHandshakeInfo) (*transport.Certificate, error) {
		if h := vhosts.Match(string(info.ServerName.Label)); h != nil {
			return &h.Certificate, nil
		}
		return nil, fmt.Errorf("%v did not match a host block", info.ServerName)
	}
	getAllowedCerts := func() ([]*transport.Certificate, error) {
		var out []*transport.Certificate
		for _, n := range hiddenNames {
			if h := vhosts.Match(n); h != nil {
				if len(h.Certificate.HostNames) < 8 { // NewHopServer appends without bound; keep the harness copy bounded
					h.Certificate.HostNames = append(h.Certificate.HostNames, n)
				}
				out = append(out, &h.Certificate)
			}
		}
		if len(out) == 0 {
			return nil, fmt.Errorf("no certificate found on the server")
		}
		return out, nil
	}
	return transport.ServerConfig{GetCertificate: getCert, GetCertList: getAllowedCerts, HandshakeTimeout: 5 * time.Second,
		HiddenModeVHostNames: hiddenNames, IsHidden: len(hiddenNames) > 0}, ids
}

func newWorldFor(config string) *world {
	w := &world{net: simnet.New(false), pki: fix.NewPKI(), next: 100, config: config}
	w.client = w.pki.Issue(certs.RawStringName("client"))
	w.srvAddr = simnet.Addr(1, 7777)
	w.srvEP = w.net.Listen(w.srvAddr)
	cv := &transport.VerifyConfig{Store: w.pki.Store()}
	var cfg transport.ServerConfig
	switch config {
	case "single-cert", "single-cert-hidden-only":
		id := w.pki.IssueServer(fix.ServerName)
		cfg = fix.ServerConfig(id, cv, 5*time.Second)
		cfg.IsHidden = config == "single-cert-hidden-only"
		w.kem, w.name, w.hidden = id.KEM, fix.ServerName, cfg.IsHidden
		w.server = id
	case "multi-vhost":
		var ids []*fix.Identity
		cfg, ids = vhostServerConfig(w.pki, nil)
		cfg.ClientVerify = cv
		w.kem, w.name = ids[0].KEM, certs.DNSName("alpha.example")
	case "multi-vhost-hidden-one-block-without-kem-key":
		var ids []*fix.Identity
		cfg, ids = vhostServerConfigKEM(w.pki, []string{"alpha.example", "x.beta.example", "gamma-ray"}, 0)
		cfg.ClientVerify = cv
		w.kem, w.name, w.hidden = ids[1].KEM, certs.DNSName("*.beta.example"), true
	case "multi-vhost-hidden":
		var ids []*fix.Identity
		cfg, ids = vhostServerConfig(w.pki, []string{"alpha.example", "x.beta.example", "gamma-ray"})
		cfg.ClientVerify = cv
		// the honest hidden client targets the second listed certificate
		w.kem, w.name, w.hidden = ids[1].KEM, certs.DNSName("*.beta.example"), true
	}
	srv, err := transport.NewServer(w.srvEP, cfg)
	if err != nil {
		panic("junk: NewServer: " + err.Error())
	}
	w.srv = srv
	go srv.Serve()
	return w
}

func (w *world) freshAddr() *net.UDPAddr {
	w.next++
	return simnet.Addr(w.next, 30000+w.next%30000)
}

func (w *world) newClient(name certs.Name, hidden bool) (*transport.Client, *simnet.Endpoint) {
	ep := w.net.Listen(w.freshAddr())
	var kem *keys.KEMPublicKey
	if hidden {
		kem = &w.kem.Public
	}
	verify := transport.VerifyConfig{Store: w.pki.Store(), Name: name}
	if hidden && strings.HasPrefix(w.config, "multi-vhost-hidden") {
		verify.Name = certs.Name{} // the hidden server picks the certificate by KEM key
	}
	cl := transport.NewClient(ep, w.srvAddr, fix.ClientConfig(w.client, verify, 3*time.Second, kem))
	return cl, ep
}

type live struct {
	cl *transport.Client
	h  *transport.Handle
	ep *simnet.Endpoint
	id transport.SessionID
}

func handshakeTo(w *world, hidden bool) (*live, error) {
	// the application accepts what is pending first: replayed valid requests
	// (authentic datagrams, fresh for five seconds) each leave a connection in
	// the accept backlog, and a full backlog turns the next one away by design
	// (MaxPendingConnections) - that is not a wedge
	for {
		if _, err := w.srv.AcceptTimeout(time.Millisecond); err != nil {
			break
		}
	}
	cl, ep := w.newClient(w.name, hidden)
	done := make(chan error, 1)
	go func() { done <- cl.Handshake() }()
	var err error
	select {
	case err = <-done:
	case <-time.After(40 * time.Second):
		cl.Close()
		err = fmt.Errorf("handshake did not return within 40 virtual seconds")
		<-done
	}
	if err != nil {
		cl.Close()
		return nil, err
	}
	cs, _ := cl.VerifSession()
	for {
		h, err := w.srv.AcceptTimeout(2 * time.Second)
		if err != nil {
			cl.Close()
			return nil, fmt.Errorf("accept: %w", err)
		}
		if h.VerifSession().ID == cs.ID {
			return &live{cl: cl, h: h, ep: ep, id: cs.ID}, nil
		}
	}
}

func pingPong(l *live, tag string) error {
	buf := make([]byte, 256)
	msg := []byte("ping-" + tag)
	if err := l.cl.WriteMsg(msg); err != nil {
		return fmt.Errorf("client write: %w", err)
	}
	// skip whatever (authentic) backlog is queued; junk never gets here
	deadline := time.Now().Add(2 * time.Second)
	for {
		l.h.SetReadDeadline(deadline)
		n, err := l.h.ReadMsg(buf)
		if err != nil {
			return fmt.Errorf("server read: %w", err)
		}
		if bytes.Equal(buf[:n], msg) {
			break
		}
	}
	reply := []byte("pong-" + tag)
	if err := l.h.WriteMsg(reply); err != nil {
		return fmt.Errorf("server write: %w", err)
	}
	for {
		l.cl.SetReadDeadline(deadline)
		n, err := l.cl.ReadMsg(buf)
		if err != nil {
			return fmt.Errorf("client read: %w", err)
		}
		if bytes.Equal(buf[:n], reply) {
			break
		}
	}
	l.h.SetReadDeadline(time.Time{})
	l.cl.SetReadDeadline(time.Time{})
	return nil
}

// harvest runs honest handshakes and returns one valid datagram per message
// type (both modes where the configuration allows).
func harvest(w *world) map[byte][]byte {
	out := map[byte][]byte{}
	modes := []bool{false, true}
	if w.hidden {
		modes = []bool{true}
	}
	var omu sync.Mutex
	for _, hidden := range modes {
		w.net.SetPolicy(func(d *simnet.Datagram) []simnet.Delivery {
			omu.Lock()
			defer omu.Unlock()
			if len(d.Data) > 0 {
				if _, ok := out[d.Data[0]]; !ok {
					out[d.Data[0]] = append([]byte(nil), d.Data...)
				}
			}
			return []simnet.Delivery{{Data: d.Data, Src: d.Src, Dst: d.Dst}}
		})
		if l, err := handshakeTo(w, hidden); err == nil {
			pingPong(l, "harvest")
			l.cl.Close()
		}
	}
	w.net.SetPolicy(nil)
	return out
}

var lengthGrid = []int{0, 1, 3, 4, 7, 8, 12, 15, 16, 19, 20, 47, 48, 49, 52, 100, 800, 820, 851, 852, 853, 1171, 1172, 1173, 2000, 9000, 65000, 65535}

// generator of hostile datagrams
type gen struct {
	rng   *vh.Rand
	valid map[byte][]byte
	types []byte
	sids  [][4]byte
}

func newGen(rng *vh.Rand, valid map[byte][]byte, sids ...transport.SessionID) *gen {
	g := &gen{rng: rng, valid: valid}
	for t := range valid {
		g.types = append(g.types, t)
	}
	// stable order
	for i := 1; i < len(g.types); i++ {
		for j := i; j > 0 && g.types[j] < g.types[j-1]; j-- {
			g.types[j], g.types[j-1] = g.types[j-1], g.types[j]
		}
	}
	for _, s := range sids {
		g.sids = append(g.sids, s)
	}
	return g
}

func (g *gen) pickValid() []byte {
	if len(g.types) == 0 {
		return g.rng.Bytes(100)
	}
	return g.valid[g.types[g.rng.Intn(len(g.types))]]
}

func (g *gen) one() ([]byte, string) {
	r := g.rng
	switch r.Intn(12) {
	case 0: // truncation of a valid message
		v := g.pickValid()
		return append([]byte(nil), v[:r.Intn(len(v)+1)]...), "truncation"
	case 1: // header byte mutation
		v := append([]byte(nil), g.pickValid()...)
		if len(v) >= 4 {
			v[r.Intn(4)] = byte(r.Pick(0, 1, 2, 3, 4, 5, 8, 9, 0x10, 0x7f, 0x80, 0xff))
		}
		return v, "header-mutation"
	case 2: // length field (bytes 2..3) to boundary values, with and without matching body
		v := append([]byte(nil), g.pickValid()...)
		if len(v) >= 4 {
			cur := int(v[2])<<8 | int(v[3])
			nv := r.Pick(0, 1, cur-1, cur+1, 0x7fff, 0x8000, 0xffff, cur+16, len(v))
			v[2], v[3] = byte(nv>>8), byte(nv)
		}
		return v, "length-field"
	case 3: // any single byte
		v := append([]byte(nil), g.pickValid()...)
		if len(v) > 0 {
			v[r.Intn(len(v))] ^= byte(1 + r.Intn(255))
		}
		return v, "byte-mutation"
	case 4: // every type byte with grid lengths
		n := lengthGrid[r.Intn(len(lengthGrid))]
		v := r.Bytes(n)
		if n > 0 {
			v[0] = byte(r.Intn(256))
		}
		if n > 3 && r.Bool() {
			v[1], v[2], v[3] = 0, 0, 0
		}
		return v, "type-x-length"
	case 5, 6: // live session id on short and long bodies, counter extremes
		n := r.Pick(8, 9, 12, 15, 16, 17, 31, 47, 48, 49, 50, 64, 200, 1500, 65535)
		v := r.Bytes(n)
		v[0] = byte(r.Pick(0x10, 0x10, 0x80, 0x11, 0x00))
		v[1], v[2], v[3] = 0, 0, 0
		if r.Chance(0.2) {
			v[1+r.Intn(3)] = 1
		}
		if len(g.sids) > 0 {
			s := g.sids[r.Intn(len(g.sids))]
			copy(v[4:8], s[:])
		}
		if n >= 16 {
			binary.BigEndian.PutUint64(v[8:], []uint64{0, 1, 2, 448, 449, 1 << 32, 1<<63 - 1, 1 << 63, 1<<64 - 1, uint64(r.Intn(1000))}[r.Intn(10)])
		}
		return v, "live-session-id"
	case 7: // valid message extended
		return append(append([]byte(nil), g.pickValid()...), r.Bytes(1+r.Intn(2000))...), "extension"
	case 8: // two valid messages glued
		return append(append([]byte(nil), g.pickValid()...), g.pickValid()...), "glued"
	case 9: // valid message replayed as is
		return append([]byte(nil), g.pickValid()...), "replayed-valid"
	case 10: // hidden request with boundary cert-length fields
		v := append([]byte(nil), g.pickValid()...)
		if len(v) >= 4 {
			v[0] = 0x08
			v[1] = 1
			nv := r.Pick(0, 1, 2, 100, 1000, len(v), 0xffff)
			v[2], v[3] = byte(nv>>8), byte(nv)
		}
		return v, "hidden-request-shape"
	default:
		return r.Bytes(r.Intn(3000)), "random"
	}
}

// realTime is set by the driver when it re-executes a case that stalled in a
// bubble (a goroutine queueing on a mutex that is never released stops virtual
// time; a bubble cannot tell that from running code). In real time the probes'
// own time-outs decide.
var realTime = os.Getenv("VERIF_REALTIME") == "1"

func run(c *vh.Case, fn func()) {
	if realTime {
		fn()
		return
	}
	c.Bubble(fn)
}

// closeServer closes the world's server; in real time a Close that does not
// return is itself a verdict (a wedged receive loop keeps it waiting).
func closeServer(c *vh.Case, w *world) {
	if !realTime {
		w.srv.Close()
		return
	}
	done := make(chan struct{})
	go func() { w.srv.Close(); close(done) }()
	select {
	case <-done:
	case <-time.After(15 * time.Second):
		if same, dump := vh.StuckIn(3*time.Second, "(*Server).Close", "(*Server).Serve", "(*Server).readPacket"); same && !c.Violated() {
			c.Violate("C10:server-close-does-not-return-after-junk:"+w.config, map[string]any{"goroutine_dump": dump})
		}
	}
}

func genC10(r *vh.Runner) {
	per := r.Pick(96, 30000)
	for _, cfg := range configs {
		for b := 0; b < per; b++ {
			r.Case(fmt.Sprintf("%s/batch/%d", cfg, b), map[string]any{"config": cfg, "batch": b}, func(c *vh.Case) {
				run(c, func() { batchRun(r, c, cfg, b) })
			})
		}
	}
	// handshakes that name hostile server names (SNI) against the vhost matcher
	// the certificate callbacks of a server built by hopserver.NewHopServer itself
	// (real UDP socket on the loopback interface, real time)
	nh := r.Pick(2, 40)
	for b := 0; b < nh; b++ {
		r.Case(fmt.Sprintf("hopserver-names/%d", b), map[string]any{"batch": b}, func(c *vh.Case) { hopserverNamesRun(r, c, b) })
	}
	ns := r.Pick(8, 100)
	for b := 0; b < ns; b++ {
		r.Case(fmt.Sprintf("sni/%d", b), map[string]any{"batch": b}, func(c *vh.Case) {
			run(c, func() { sniRun(r, c, b) })
		})
	}
	// length fields inside the encrypted certificate vectors are malleable (the
	// block is decrypted and split before its tag is checked): set them, in
	// flight, to every value around what is left of the message
	for _, cfg := range []string{"single-cert", "multi-vhost"} {
		r.Case(cfg+"/hostile-sni", map[string]any{"config": cfg}, func(c *vh.Case) {
			run(c, func() { hostileSNIRun(r, c, cfg) })
		})
		r.Case(cfg+"/malleable-lengths", map[string]any{"config": cfg}, func(c *vh.Case) {
			run(c, func() { malleableRun(r, c, cfg) })
		})
	}
	// exhaustive truncations and type-byte grid (thorough: all; quick: a slice of them per run)
	for _, cfg := range configs {
		chunks := r.Pick(4, 64)
		for k := 0; k < chunks; k++ {
			r.Case(fmt.Sprintf("%s/truncations/%d-of-%d", cfg, k, chunks), map[string]any{"config": cfg, "chunk": k, "chunks": chunks}, func(c *vh.Case) {
				run(c, func() { truncationRun(r, c, cfg, k, chunks) })
			})
		}
	}
}

func probe(r *vh.Runner, c *vh.Case, w *world, est *live, what string, detail map[string]any) bool {
	r.Count("probes", 1)
	if est != nil {
		if err := pingPong(est, what); err != nil {
			detail["error"] = err.Error()
			c.Violate("C10:established-session-broken-after-junk:"+w.config, detail)
			return false
		}
	}
	l, err := handshakeTo(w, w.hidden)
	if err != nil {
		detail["error"] = err.Error()
		c.Violate("C10:honest-handshake-fails-after-junk:"+w.config, detail)
		return false
	}
	defer l.cl.Close()
	if err := pingPong(l, what); err != nil {
		detail["error"] = err.Error()
		c.Violate("C10:honest-session-carries-no-data-after-junk:"+w.config, detail)
		return false
	}
	return true
}

// batchRun: junk in the idle/established state, interleaved with a running
// handshake, at the client, and after Close.
func batchRun(r *vh.Runner, c *vh.Case, cfg string, b int) {
	rng := vh.NewRand(r.Seed, "c10-batch", cfg, b)
	w := newWorldFor(cfg)
	defer closeServer(c, w)
	valid := harvest(w)
	est, err := handshakeTo(w, w.hidden)
	if err != nil {
		c.Inconclusive("setup handshake failed: " + err.Error())
		return
	}
	defer est.cl.Close()
	if err := pingPong(est, "setup"); err != nil {
		c.Inconclusive("setup ping failed: " + err.Error())
		return
	}
	g := newGen(rng, valid, est.id)
	kinds := map[string]int{}
	total := 0
	srcFor := func() *net.UDPAddr {
		switch rng.Intn(4) {
		case 0:
			return est.ep.Source() // the live session's own address
		case 1:
			return simnet.Addr(9000+rng.Intn(50), 5000) // a small pool: repeated hits from one address
		default:
			return w.freshAddr()
		}
	}
	state := []string{"established", "mid-handshake", "client-side", "established"}[b%4]
	n := 32 + rng.Intn(33)
	switch state {
	case "established":
		for k := 0; k < n; k++ {
			d, kind := g.one()
			kinds[kind]++
			total++
			w.net.Inject(simnet.Delivery{Data: d, Src: srcFor(), Dst: w.srvAddr, Tag: "junk"})
		}
	case "mid-handshake":
		// an honest handshake runs while junk is injected around each of its datagrams,
		// from its own address and from others
		cl, ep := w.newClient(w.name, w.hidden)
		caddr := ep.Source()
		var pmu sync.Mutex // the policy runs on the sender's goroutine: the client's and the server's
		w.net.SetPolicy(func(d *simnet.Datagram) []simnet.Delivery {
			pmu.Lock()
			defer pmu.Unlock()
			var out []simnet.Delivery
			flow := (d.Src.String() == caddr.String() || d.Dst.String() == caddr.String())
			if flow {
				for k := 0; k < 1+rng.Intn(6); k++ {
					j, kind := g.one()
					kinds[kind]++
					total++
					src, dst := w.freshAddr(), w.srvAddr
					if rng.Bool() {
						src = caddr
					}
					if rng.Chance(0.3) { // towards the client, from the server's address or another
						dst, src = caddr, w.srvAddr
						if rng.Bool() {
							src = w.freshAddr()
						}
					}
					out = append(out, simnet.Delivery{Data: j, Src: src, Dst: dst, Tag: "junk"})
				}
			}
			if flow && len(d.Data) >= 8 && d.Data[0] == 0x04 {
				// the server has just announced a session identifier for a
				// handshake that is not finished: transport and control
				// datagrams naming it, from the client's and other addresses
				for _, n := range []int{16, 47, 48, 49, 100, 1400} {
					for _, mt := range []byte{0x10, 0x80} {
						j := rng.Bytes(n)
						j[0], j[1], j[2], j[3] = mt, 0, 0, 0
						copy(j[4:8], d.Data[4:8])
						src := caddr
						if rng.Chance(0.3) {
							src = w.freshAddr()
						}
						out = append(out, simnet.Delivery{Data: j, Src: src, Dst: w.srvAddr, Tag: "junk-half-open-session"})
						kinds["half-open-session-id"]++
						total++
					}
				}
			}
			return append(out, simnet.Delivery{Data: d.Data, Src: d.Src, Dst: d.Dst})
		})
		done := bub.Go(func() { cl.Handshake() })
		if !bub.Within(done, 40*time.Second) {
			cl.Close()
			<-done
		}
		w.net.SetPolicy(nil)
		cl.Close()
	case "client-side":
		for k := 0; k < n; k++ {
			d, kind := g.one()
			kinds[kind]++
			total++
			src := w.srvAddr
			if rng.Chance(0.4) {
				src = w.freshAddr()
			}
			w.net.Inject(simnet.Delivery{Data: d, Src: src, Dst: est.ep.Source(), Tag: "junk"})
		}
	}
	bub.Settle(200 * time.Millisecond)
	r.Count("evaluations", int64(total))
	r.Count("datagrams_injected", int64(total))
	r.Count("state:"+state, int64(total))
	for k, v := range kinds {
		r.Count("kind:"+k, int64(v))
	}
	r.NontrivialN(int64(total)) // every injected datagram was consumed by a live endpoint before the probe ran
	if !probe(r, c, w, est, fmt.Sprintf("b%d", b), map[string]any{"config": cfg, "state": state, "batch": b, "datagrams": total, "kinds": kinds}) {
		return
	}
	// after Close: junk to a closed client socket and to the server for the closed session
	if b%5 == 0 {
		est.cl.Close()
		for k := 0; k < 16; k++ {
			d, _ := g.one()
			w.net.Inject(simnet.Delivery{Data: d, Src: est.ep.Source(), Dst: w.srvAddr, Tag: "junk-after-close"})
			w.net.Inject(simnet.Delivery{Data: d, Src: w.srvAddr, Dst: est.ep.Source(), Tag: "junk-after-close"})
		}
		bub.Settle(100 * time.Millisecond)
		r.Count("datagrams_injected", 32)
		r.Count("state:after-close", 32)
		probe(r, c, w, nil, "after-close", map[string]any{"config": cfg, "state": "after-close", "batch": b})
	}
	if b == 0 {
		r.Sample(map[string]any{"kind": "junk-batch", "config": cfg, "state": state, "datagrams": total, "kinds": kinds})
	}
}

// truncationRun: every truncation length of every valid message and the full
// type-byte x length grid, split into chunks.
func truncationRun(r *vh.Runner, c *vh.Case, cfg string, k, chunks int) {
	w := newWorldFor(cfg)
	defer closeServer(c, w)
	valid := harvest(w)
	est, err := handshakeTo(w, w.hidden)
	if err != nil {
		c.Inconclusive("setup handshake failed: " + err.Error())
		return
	}
	defer est.cl.Close()
	var all [][]byte
	g := newGen(vh.NewRand(r.Seed, "c10-trunc", cfg), valid, est.id)
	for _, t := range g.types {
		v := valid[t]
		step := 1
		if len(v) > 3000 {
			step = 7
		}
		for l := 0; l <= len(v); l += step {
			all = append(all, v[:l])
		}
	}
	for t := 0; t < 256; t++ {
		for _, n := range lengthGrid {
			if n == 0 || n > 3000 && t%16 != 0 {
				continue
			}
			d := make([]byte, n)
			d[0] = byte(t)
			if n >= 8 {
				copy(d[4:8], est.id[:])
			}
			all = append(all, d)
		}
	}
	lo, hi := len(all)*k/chunks, len(all)*(k+1)/chunks
	// quick runs cover a seed-chosen window of each chunk; thorough runs everything
	if !r.Thorough() && hi-lo > 400 {
		off := vh.NewRand(r.Seed, "c10-window", cfg, k).Intn(hi - lo - 400)
		lo, hi = lo+off, lo+off+400
	}
	n := 0
	for i := lo; i < hi; i++ {
		src := w.freshAddr()
		if i%3 == 0 {
			src = est.ep.Source()
		}
		w.net.Inject(simnet.Delivery{Data: all[i], Src: src, Dst: w.srvAddr, Tag: "trunc"})
		if i%2 == 0 {
			w.net.Inject(simnet.Delivery{Data: all[i], Src: w.srvAddr, Dst: est.ep.Source(), Tag: "trunc"})
		}
		n++
		if n%64 == 0 {
			bub.Settle(20 * time.Millisecond)
			if !probe(r, c, w, est, fmt.Sprintf("t%d", i), map[string]any{"config": cfg, "enumeration_index": i, "last_len": len(all[i])}) {
				return
			}
		}
	}
	bub.Settle(50 * time.Millisecond)
	r.Count("evaluations", int64(n))
	r.Count("datagrams_injected", int64(n))
	r.Count("enumerated_datagrams", int64(n))
	r.NontrivialN(int64(n))
	probe(r, c, w, est, "end", map[string]any{"config": cfg, "chunk": k})
	if r.Thorough() && k == chunks-1 {
		r.Count("exhaustive_spaces_completed", 1)
	}
}

// sniRun: real client handshakes asking for hostile server names.
func sniRun(r *vh.Runner, c *vh.Case, b int) {
	rng := vh.NewRand(r.Seed, "c10-sni", b)
	w := newWorldFor("multi-vhost")
	defer closeServer(c, w)
	est, err := handshakeTo(w, false)
	if err != nil {
		c.Inconclusive("setup handshake failed: " + err.Error())
		return
	}
	defer est.cl.Close()
	labels := []string{"", "a", "alpha.example", "x.beta.example", ".beta.example", "gamma", "gamm", "*", "**", "*.example", "alpha.example*", string(bytes.Repeat([]byte{'g'}, 252)), "\x00", "alpha.exampl", "ALPHA.EXAMPLE"}
	n := 0
	for _, l := range labels {
		for _, ty := range []certs.IDType{certs.TypeDNSName, certs.TypeRaw, certs.TypeIPv4Address, certs.IDType(0x7f)} {
			name := certs.Name{Type: ty, Label: []byte(l)}
			cl, _ := w.newClient(name, false)
			done := bub.Go(func() { cl.Handshake() })
			if !bub.Within(done, 20*time.Second) {
				cl.Close()
				<-done
			}
			cl.Close()
			n++
		}
	}
	_ = rng
	_ = rand.Reader
	r.Count("evaluations", int64(n))
	r.Count("sni_handshakes", int64(n))
	r.NontrivialN(int64(n))
	probe(r, c, w, est, "sni", map[string]any{"labels": len(labels)})
	if b == 0 {
		r.Sample(map[string]any{"kind": "sni", "labels": labels[:8], "id_types": 4})
	}
}

// hopserverNamesRun: hopserver.NewHopServer with host blocks only (no
// catch-all), listening on a loopback UDP socket. Real clients name hosts that
// match no block, with every kind of identifier type byte; afterwards a client
// naming a configured host must still get through (a panic in a server
// goroutine ends the child and is attributed by the driver).
func hopserverNamesRun(r *vh.Runner, c *vh.Case, b int) {
	rng := vh.NewRand(r.Seed, "c10-hopserver", b)
	pki := fix.NewPKI()
	known := []string{"known.example", "other.example"}
	sock := filepath.Join(os.TempDir(), fmt.Sprintf("verif-c10-agproxy-%d-%d.sock", os.Getpid(), b))
	defer os.Remove(sock)
	sc := &config.ServerConfig{ListenAddress: "127.0.0.1:0", HandshakeTimeout: 2 * time.Second, DataTimeout: 5 * time.Second,
		InsecureSkipVerify: true, AgProxyListenSocket: &sock}
	ids := map[string]*fix.Identity{}
	for _, k := range known {
		id := pki.IssueServer(certs.DNSName(k))
		ids[k] = id
		sc.Names = append(sc.Names, config.NameConfig{Pattern: k, Key: id.Key, KEMKey: id.KEM, Certificate: id.Leaf, Intermediate: id.Int})
	}
	hs, err := hopserver.NewHopServer(sc)
	if err != nil {
		c.Inconclusive("NewHopServer: " + err.Error())
		return
	}
	go hs.Serve()
	defer func() {
		done := make(chan struct{})
		go func() { hs.Close(); close(done) }()
		select {
		case <-done:
		case <-time.After(20 * time.Second):
			r.Count("hopserver_close_outlasted_the_case", 1)
		}
	}()
	addr, ok := hs.ListenAddress().(*net.UDPAddr)
	if !ok || addr.Port == 0 {
		c.Inconclusive("no listen address")
		return
	}
	client := pki.Issue(certs.RawStringName("client"))
	try := func(name certs.Name, timeout time.Duration) error {
		conn, err := net.ListenUDP("udp", &net.UDPAddr{IP: net.IPv4(127, 0, 0, 1)})
		if err != nil {
			return err
		}
		cfg := fix.ClientConfig(client, transport.VerifyConfig{Store: pki.Store(), Name: name}, timeout, nil)
		cl := transport.NewClient(conn, addr, cfg)
		err = cl.Handshake()
		cl.Close()
		conn.Close()
		return err
	}
	labels := []string{"", "nobody.example", "known.exampl", "known.example.", "KNOWN.EXAMPLE", "*", "%s%d%v", "\x00\xff", string(bytes.Repeat([]byte{'n'}, 200)), string(rng.Bytes(1 + rng.Intn(40)))}
	types := []certs.IDType{certs.TypeDNSName, certs.TypeRaw, certs.TypeIPv4Address, certs.IDType(3), certs.IDType(4), certs.IDType(0x7f), certs.IDType(0x80), certs.IDType(0xff), certs.IDType(rng.Intn(256))}
	n := 0
	for _, l := range labels {
		for _, ty := range types {
			try(certs.Name{Type: ty, Label: []byte(l)}, 150*time.Millisecond)
			n++
		}
	}
	// unknown type byte with a label that does match
	for _, ty := range types {
		try(certs.Name{Type: ty, Label: []byte(known[rng.Intn(len(known))])}, 300*time.Millisecond)
		n++
	}
	r.Count("evaluations", int64(n))
	r.Count("hopserver_name_handshakes", int64(n))
	r.NontrivialN(int64(n))
	k := known[rng.Intn(len(known))]
	var last error
	for attempt := 0; attempt < 3; attempt++ {
		if last = try(certs.DNSName(k), 3*time.Second); last == nil {
			break
		}
	}
	if last != nil {
		c.Violate("C10:server-dead-after-junk:hopserver-names", map[string]any{"handshakes": n, "control_name": k, "control_error": last.Error()})
		return
	}
	r.Count("hopserver_control_handshakes_ok", 1)
}

// hostileSNIRun: the harness plays an anonymous client itself (verif exports):
// an honest ClientHello for its own KEM key, then a ClientAck whose cookie,
// transcript and MAC are valid and whose encrypted server-name field holds a
// name block no encoder produces (block size, identifier type and label length
// in every combination around each other and around the ends of their range).
func hostileSNIRun(r *vh.Runner, c *vh.Case, cfg string) {
	w := newWorldFor(cfg)
	defer closeServer(c, w)
	est, err := handshakeTo(w, w.hidden)
	if err != nil {
		c.Inconclusive("setup handshake failed: " + err.Error())
		return
	}
	defer est.cl.Close()
	var blocks [][]byte
	for _, bs := range []int{0, 1, 2, 3, 4, 5, 17, 254, 255} {
		lens := map[int]bool{0: true, 1: true, 252: true, 253: true, 254: true, 255: true}
		for d := -5; d <= 1; d++ {
			if bs+d >= 0 && bs+d <= 255 {
				lens[bs+d] = true
			}
		}
		for l := range lens {
			for _, ty := range []byte{0, 1, 3, 0x7f} {
				b := append([]byte{byte(bs), ty, byte(l)}, bytes.Repeat([]byte{'x'}, 253)...)
				blocks = append(blocks, b)
			}
		}
	}
	n, answered := 0, 0
	buf := make([]byte, 65536)
	for _, sni := range blocks {
		w.next++
		ep := w.net.Listen(simnet.Addr(w.next, 30000+w.next%20000))
		kem, err := keys.GenerateKEMKeyPair(rand.Reader)
		if err != nil {
			c.Inconclusive("kem: " + err.Error())
			return
		}
		pub, _ := kem.Public.MarshalBinary()
		hello, _ := transport.VerifClientHello(kem)
		ep.WriteMsgUDP(hello, nil, w.srvAddr)
		ep.SetReadDeadline(time.Now().Add(time.Second))
		m, _, _, _, err := ep.ReadMsgUDP(buf, nil)
		if err != nil || m != transport.HeaderLen+transport.KemCtLen+transport.PQCookieLen+transport.MacLen || buf[0] != 0x02 {
			ep.Close()
			r.Count("hostile_sni_no_server_hello", 1) // a hidden-only server stays silent
			continue
		}
		k, err := kem.Decapsulate(buf[transport.HeaderLen : transport.HeaderLen+transport.KemCtLen])
		if err != nil {
			ep.Close()
			continue
		}
		cookie := append([]byte(nil), buf[transport.HeaderLen+transport.KemCtLen:transport.HeaderLen+transport.KemCtLen+transport.PQCookieLen]...)
		ack, err := transport.VerifClientAckRawSNI(pub, k, cookie, sni)
		if err != nil {
			ep.Close()
			continue
		}
		ep.WriteMsgUDP(ack, nil, w.srvAddr)
		ep.SetReadDeadline(time.Now().Add(100 * time.Millisecond))
		if _, _, _, _, err := ep.ReadMsgUDP(buf, nil); err == nil {
			answered++
		}
		ep.Close()
		n++
	}
	r.Count("evaluations", int64(n))
	r.Count("datagrams_injected", int64(n))
	r.Count("client_acks_with_hostile_name_block", int64(n))
	r.Count("client_acks_with_hostile_name_block_answered", int64(answered))
	r.NontrivialN(int64(n))
	probe(r, c, w, est, "hostile-sni", map[string]any{"config": cfg, "name_blocks": len(blocks)})
}

// malleableRun: an honest discoverable handshake in which one message is
// modified in flight so that a length field of the encrypted certificate
// vectors decrypts to a chosen value (stream encryption: XOR of the ciphertext
// bytes with old^new). ClientAuth (parsed by the server) for every
// configuration, ServerAuth (parsed by the client) where the harness knows the
// server's certificates.
func malleableRun(r *vh.Runner, c *vh.Case, cfg string) {
	w := newWorldFor(cfg)
	defer closeServer(c, w)
	est, err := handshakeTo(w, false)
	if err != nil {
		c.Inconclusive("setup handshake failed: " + err.Error())
		return
	}
	defer est.cl.Close()
	type target struct {
		msg    byte
		off    int // offset of the 2-byte length field in the datagram
		old    int // its plaintext value
		remain int // bytes of the block after the field
		what   string
		narrow bool // a one-byte field (of a name block)
	}
	var targets []target
	cl, ci := len(fix.Raw(w.client.Leaf)), len(fix.Raw(w.client.Int))
	const clientAuthCerts = 4 + 4 // header, session id
	targets = append(targets,
		target{0x05, clientAuthCerts, cl, cl + ci + 2, "ClientAuth:leaf-length", false},
		target{0x05, clientAuthCerts + 2 + cl, ci, ci, "ClientAuth:intermediate-length", false})
	if w.server != nil {
		sl, si := len(fix.Raw(w.server.Leaf)), len(fix.Raw(w.server.Int))
		const serverAuthCerts = 4 + 4 + 32 // header, session id, ephemeral key
		targets = append(targets,
			target{0x04, serverAuthCerts, sl, sl + si + 2, "ServerAuth:leaf-length", false},
			target{0x04, serverAuthCerts + 2 + sl, si, si, "ServerAuth:intermediate-length", false})
	}
	// the one-byte fields of name blocks (block size, identifier type, label
	// length): of the server name the client sends encrypted in its ClientAck,
	// and of the first name inside the client's leaf certificate in ClientAuth
	label := w.name.Label
	sniOff := transport.HeaderLen + transport.DHLen + transport.KemKeyLen + transport.PQCookieLen
	targets = append(targets,
		target{0x03, sniOff, len(label) + 3, len(label) + 3, "ClientAck:sni-block-size", true},
		target{0x03, sniOff + 1, int(w.name.Type), 0, "ClientAck:sni-id-type", true},
		target{0x03, sniOff + 2, len(label), len(label), "ClientAck:sni-label-length", true})
	if raw, cn := fix.Raw(w.client.Leaf), []byte("client"); bytes.Index(raw, cn) >= 3 {
		at := clientAuthCerts + 2 + bytes.Index(raw, cn) - 3
		targets = append(targets,
			target{0x05, at, len(cn) + 3, len(cn) + 3, "ClientAuth:leaf-name-block-size", true},
			target{0x05, at + 2, len(cn), len(cn), "ClientAuth:leaf-name-label-length", true})
	}
	n := 0
	for _, t := range targets {
		values := []int{0, 1, 2, t.remain - 3, t.remain - 2, t.remain - 1, t.remain, t.remain + 1, t.remain + 2, t.old - 1, t.old + 1, 0x7fff, 0x8000, 0xffff}
		if t.narrow {
			values = []int{0, 1, 2, 3, 4, 5, t.old - 4, t.old - 3, t.old - 2, t.old - 1, t.old + 1, t.old + 2, t.old + 3, t.old + 4, 0x7f, 0x80, 0xfe, 0xff}
		}
		for _, v := range values {
			if v < 0 || v > 0xffff || v == t.old || (t.narrow && v > 0xff) {
				continue
			}
			mask := t.old ^ v
			if t.narrow {
				mask <<= 8 // the single byte is the first of the two XORed below
			}
			hcl, ep := w.newClient(w.name, false)
			caddr := ep.Source()
			done1 := false
			var dmu sync.Mutex
			w.net.SetPolicy(func(d *simnet.Datagram) []simnet.Delivery {
				dmu.Lock()
				defer dmu.Unlock()
				flow := d.Src.String() == caddr.String() || d.Dst.String() == caddr.String()
				if flow && !done1 && len(d.Data) > t.off+1 && d.Data[0] == t.msg {
					done1 = true
					m := append([]byte(nil), d.Data...)
					m[t.off] ^= byte(mask >> 8)
					m[t.off+1] ^= byte(mask)
					return []simnet.Delivery{{Data: m, Src: d.Src, Dst: d.Dst, Tag: "malleable:" + t.what}}
				}
				return []simnet.Delivery{{Data: d.Data, Src: d.Src, Dst: d.Dst}}
			})
			done := bub.Go(func() { hcl.Handshake() })
			if !bub.Within(done, 40*time.Second) {
				hcl.Close()
				<-done
			}
			w.net.SetPolicy(nil)
			hcl.Close()
			n++
			r.Count("malleable:"+t.what, 1)
			if !done1 {
				r.Count("malleable_target_message_not_seen", 1)
			}
		}
		bub.Settle(20 * time.Millisecond)
		if !probe(r, c, w, est, "malleable", map[string]any{"config": cfg, "field": t.what}) {
			return
		}
	}
	r.Count("evaluations", int64(n))
	r.Count("datagrams_injected", int64(n))
	r.NontrivialN(int64(n))
}
