// Package bub runs one case inside a testing/synctest bubble and turns the
// bubble's own failure modes into values: a deadlock (every goroutine durably
// blocked, no timer pending) and goroutines left behind when the root returns.
package bub

import (
	"fmt"
	"runtime/debug"
	"strings"
	"testing"
	"testing/synctest"
	"time"
)

// Outcome of a bubble.
type Outcome struct {
	Deadlock bool   // all goroutines durably blocked while the root was still running
	Leak     bool   // root returned while blocked goroutines remained
	Panic    string // panic raised in the root goroutine
	Stack    string // its stack
}

// OK reports a clean bubble.
func (o Outcome) OK() bool { return !o.Deadlock && !o.Leak && o.Panic == "" }

func (o Outcome) String() string {
	switch {
	case o.Deadlock:
		return "deadlock"
	case o.Leak:
		return "leak"
	case o.Panic != "":
		return "panic: " + o.Panic
	}
	return "ok"
}

// Run executes fn as the root goroutine of a fresh bubble.
func Run(t *testing.T, name string, fn func()) (out Outcome) {
	t.Run(name, func(t *testing.T) {
		defer func() {
			if x := recover(); x != nil {
				msg := fmt.Sprint(x)
				switch {
				case strings.Contains(msg, "main bubble goroutine has exited"):
					out.Leak = true
				case strings.Contains(msg, "deadlock: all goroutines in bubble are blocked"):
					out.Deadlock = true
				default:
					panic(x)
				}
			}
		}()
		synctest.Test(t, func(t *testing.T) {
			defer func() {
				if x := recover(); x != nil {
					out.Panic = fmt.Sprint(x)
					out.Stack = string(debug.Stack())
				}
			}()
			fn()
		})
	})
	return out
}

// Wait is synctest.Wait (every other goroutine of the bubble is durably blocked).
func Wait() { synctest.Wait() }

// Settle lets virtual time pass and waits for quiescence.
func Settle(d time.Duration) {
	time.Sleep(d)
	synctest.Wait()
}

// Go runs f in a goroutine and returns a channel closed when it returns.
func Go(f func()) <-chan struct{} {
	ch := make(chan struct{})
	go func() { defer close(ch); f() }()
	return ch
}

// Within waits (in virtual time) for ch to close; false if it did not within d.
func Within(ch <-chan struct{}, d time.Duration) bool {
	t := time.NewTimer(d)
	defer t.Stop()
	select {
	case <-ch:
		return true
	case <-t.C:
		return false
	}
}
